// vcheck is the single harness binary: vcheck <ID> [--tier quick|thorough] [--verif dir] [--replay file]
package main

import (
	"flag"
	"fmt"
	"os"

	"github.com/istio-ecosystem/authservice/zzverif/ev"
	"github.com/istio-ecosystem/authservice/zzverif/props"
)

func main() {
	if len(os.Args) < 2 {
		fmt.Fprintln(os.Stderr, "usage: vcheck <ID> [--tier quick|thorough] [--verif dir] [--replay file]")
		os.Exit(2)
	}
	id := os.Args[1]
	fs := flag.NewFlagSet("vcheck", flag.ExitOnError)
	tier := fs.String("tier", "quick", "")
	verif := fs.String("verif", "/verif", "")
	replay := fs.String("replay", "", "")
	_ = fs.Parse(os.Args[2:])
	if t := os.Getenv("VERIF_TIER"); t != "" && !isFlagSet(fs, "tier") {
		*tier = t
	}
	p, ok := props.Registry[id]
	if !ok {
		fmt.Fprintln(os.Stderr, "unknown property", id)
		os.Exit(2)
	}
	if child := os.Getenv("VERIF_SCHED_CHILD"); child != "" {
		if p.SchedChild == nil {
			fmt.Fprintln(os.Stderr, "no fresh-process scenarios for", id)
			os.Exit(2)
		}
		p.SchedChild(child, os.Getenv("VERIF_SCHED_PREFIX"))
		os.Exit(0)
	}
	if *replay != "" {
		if p.Replay == nil {
			fmt.Fprintln(os.Stderr, "no replay for", id)
			os.Exit(2)
		}
		os.Exit(p.Replay(*replay))
	}
	r := ev.NewRun(id, *tier, *verif)
	p.Run(r)
	os.Exit(r.Finish())
}

func isFlagSet(fs *flag.FlagSet, name string) bool {
	set := false
	fs.Visit(func(f *flag.Flag) {
		if f.Name == name {
			set = true
		}
	})
	return set
}

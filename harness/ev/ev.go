// Package ev: evidence files, violation reporting, known findings.
package ev

import (
	"crypto/sha1"
	"encoding/hex"
	"encoding/json"
	"fmt"
	"os"
	"path/filepath"
	"sort"
	"strconv"
	"sync"
	"time"
)

// Finding is one entry of known_findings.json.
type Finding struct {
	Property  string `json:"property"`
	Signature string `json:"signature"`
	Status    string `json:"status"` // known | fixed
	Commit    string `json:"commit,omitempty"`
	What      string `json:"what"`
}

// Run collects what one check run covered.
type Run struct {
	Prop     string
	Tier     string
	Seed     int64
	Start    time.Time
	VerifDir string
	Deadline time.Time

	mu          sync.Mutex
	known       []Finding
	seenSig     map[string]bool
	violations  int
	knownHits   map[string]int
	Incidental  map[string]int
	harnessErrs []string

	// coverage
	States      int64
	Transitions int64
	Traces      int64
	Evals       int64
	Distinct    map[string]bool
	Rule        string
	Samples     []any
	Exhaustive  bool
	Caps        []string
	Extra       map[string]any
	Assumptions []string
	// Collector, when set, receives violations instead of the normal reporting (worker subprocesses).
	Collector func(signature, msg string, replay any)
}

func NewRun(prop, tier, verifDir string) *Run {
	seed, _ := strconv.ParseInt(os.Getenv("VERIF_SEED"), 10, 64)
	r := &Run{Prop: prop, Tier: tier, Seed: seed, Start: time.Now(), VerifDir: verifDir,
		seenSig: map[string]bool{}, knownHits: map[string]int{}, Incidental: map[string]int{},
		Distinct: map[string]bool{}, Exhaustive: true, Extra: map[string]any{}}
	budget := 240 * time.Second
	if tier == "thorough" {
		budget = 25 * time.Minute
	}
	if v := os.Getenv("VERIF_BUDGET_S"); v != "" {
		if n, err := strconv.Atoi(v); err == nil {
			budget = time.Duration(n) * time.Second
		}
	}
	r.Deadline = r.Start.Add(budget)
	b, err := os.ReadFile(filepath.Join(verifDir, "known_findings.json"))
	if err == nil {
		var fs []Finding
		if err := json.Unmarshal(b, &fs); err != nil {
			r.HarnessError("known_findings.json: " + err.Error())
		}
		r.known = fs
	}
	return r
}

// Expired reports whether the internal deadline has passed; the caller stops exploring and the run is
// reported as not exhaustive (never as a violation).
func (r *Run) Expired() bool {
	if time.Now().After(r.Deadline) {
		r.Cap("internal deadline reached")
		return true
	}
	return false
}

// AddExtra adds n to an integer counter of the evidence's extra fields.
func (r *Run) AddExtra(key string, n int64) {
	r.mu.Lock()
	defer r.mu.Unlock()
	cur, _ := r.Extra[key].(int64)
	r.Extra[key] = cur + n
}

// SetExtraOnce sets an extra field unless it is set already.
func (r *Run) SetExtraOnce(key string, v any) {
	r.mu.Lock()
	defer r.mu.Unlock()
	if _, ok := r.Extra[key]; !ok {
		r.Extra[key] = v
	}
}

func (r *Run) Cap(what string) {
	r.mu.Lock()
	defer r.mu.Unlock()
	r.Exhaustive = false
	for _, c := range r.Caps {
		if c == what {
			return
		}
	}
	r.Caps = append(r.Caps, what)
}

func (r *Run) HarnessError(msg string) {
	r.mu.Lock()
	defer r.mu.Unlock()
	if len(r.harnessErrs) < 20 {
		r.harnessErrs = append(r.harnessErrs, msg)
	}
	fmt.Fprintln(os.Stderr, "HARNESS-ERROR:", msg)
}

func (r *Run) Sample(s any) {
	r.mu.Lock()
	defer r.mu.Unlock()
	if len(r.Samples) < 6 {
		r.Samples = append(r.Samples, s)
	}
}

// Class records a (class) of non-trivial case seen; distinct_nontrivial = number of distinct classes.
func (r *Run) Class(c string) {
	r.mu.Lock()
	r.Distinct[c] = true
	r.mu.Unlock()
}

func (r *Run) Incident(c string) {
	r.mu.Lock()
	r.Incidental[c]++
	r.mu.Unlock()
}

// Violation reports a violation with a stable signature. Returns true when it is new (first time this
// signature is seen in this run).
func (r *Run) Violation(signature, msg string, replay any) bool {
	r.mu.Lock()
	defer r.mu.Unlock()
	if r.seenSig[signature] {
		return false
	}
	r.seenSig[signature] = true
	if r.Collector != nil {
		r.violations++
		r.Collector(signature, msg, replay)
		return true
	}
	for _, k := range r.known {
		if k.Property == r.Prop && k.Signature == signature && k.Status == "known" {
			r.knownHits[signature]++
			fmt.Printf("KNOWN-FINDING: property=%s %s [%s]\n", r.Prop, k.What, signature)
			return true
		}
	}
	r.violations++
	h := sha1.Sum([]byte(signature))
	dir := filepath.Join(r.VerifDir, "replays", r.Prop)
	_ = os.MkdirAll(dir, 0o755)
	path := filepath.Join(dir, hex.EncodeToString(h[:6])+".json")
	b, _ := json.MarshalIndent(map[string]any{"property": r.Prop, "signature": signature, "message": msg, "replay": replay}, "", " ")
	_ = os.WriteFile(path, b, 0o644)
	fmt.Printf("VIOLATION property=%s replay=%s\n", r.Prop, path)
	fmt.Printf("  signature: %s\n  message: %s\n", signature, msg)
	return true
}

func (r *Run) Violations() int {
	r.mu.Lock()
	defer r.mu.Unlock()
	return r.violations
}

// Finish writes the evidence file and returns the process exit code.
func (r *Run) Finish() int {
	r.mu.Lock()
	defer r.mu.Unlock()
	wall := time.Since(r.Start).Seconds()
	classes := make([]string, 0, len(r.Distinct))
	for c := range r.Distinct {
		classes = append(classes, c)
	}
	sort.Strings(classes)
	if len(classes) > 40 {
		classes = classes[:40]
	}
	cov := map[string]any{
		"states":                        r.States,
		"transitions":                   r.Transitions,
		"traces_validated_against_impl": r.Traces,
		"evaluations":                   r.Evals,
		"distinct_nontrivial":           len(r.Distinct),
		"rule":                          r.Rule,
		"samples":                       r.Samples,
		"exhaustive":                    r.Exhaustive,
		"caps_hit":                      r.Caps,
		"classes_seen":                  classes,
		"incidental":                    r.Incidental,
		"known_findings_reproduced":     r.knownHits,
	}
	for k, v := range r.Extra {
		cov[k] = v
	}
	if r.Samples == nil {
		cov["samples"] = []any{}
	}
	evd := map[string]any{
		"property_id": r.Prop,
		"tier":        r.Tier,
		"seed":        r.Seed,
		"level":       "model_checking",
		"coverage":    cov,
		"assumptions": r.Assumptions,
		"wall_s":      wall,
		"violations":  r.violations,
	}
	b, _ := json.MarshalIndent(evd, "", " ")
	dir := filepath.Join(r.VerifDir, "evidence")
	_ = os.MkdirAll(dir, 0o755)
	if err := os.WriteFile(filepath.Join(dir, r.Prop+".json"), b, 0o644); err != nil {
		fmt.Fprintln(os.Stderr, "cannot write evidence:", err)
		return 2
	}
	fmt.Printf("%s tier=%s states=%d transitions=%d traces=%d evals=%d distinct=%d exhaustive=%v violations=%d known=%d wall=%.1fs\n",
		r.Prop, r.Tier, r.States, r.Transitions, r.Traces, r.Evals, len(r.Distinct), r.Exhaustive, r.violations, len(r.knownHits), wall)
	if len(r.harnessErrs) > 0 {
		return 2
	}
	if r.violations > 0 {
		return 1
	}
	return 0
}

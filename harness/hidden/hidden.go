// Package hidden dumps the plain-data part of an object's private state by reflection, so that canonical
// states used for de-duplication also cover implementation state the harness does not know about (a state
// abstraction that ignores hidden state would silently merge states with different futures).
package hidden

import (
	"fmt"
	"reflect"
	"sort"
	"strings"
	"sync"
	"time"
	"unsafe"
)

// Dump renders every field of the struct (recursively, depth-limited) that consists of plain data: strings,
// numbers, booleans, times, and maps/slices/structs of those. For maps whose values are not plain data only the
// sorted keys are rendered. Pointers, interfaces, functions and channels are skipped (addresses are not stable
// across replays). skip lists field names to ignore.
func Dump(obj any, skip ...string) string {
	sk := map[string]bool{}
	for _, s := range skip {
		sk[s] = true
	}
	v := reflect.ValueOf(obj)
	for v.Kind() == reflect.Pointer || v.Kind() == reflect.Interface {
		if v.IsNil() {
			return ""
		}
		v = v.Elem()
	}
	var sb strings.Builder
	dump(&sb, v, 0, sk)
	return sb.String()
}

var (
	timeType    = reflect.TypeOf(time.Time{})
	syncMapType = reflect.TypeOf(sync.Map{})
)

func plain(t reflect.Type, depth int) bool {
	if depth > 4 {
		return false
	}
	switch t.Kind() {
	case reflect.String, reflect.Bool, reflect.Int, reflect.Int8, reflect.Int16, reflect.Int32, reflect.Int64,
		reflect.Uint, reflect.Uint8, reflect.Uint16, reflect.Uint32, reflect.Uint64, reflect.Float32, reflect.Float64:
		return true
	case reflect.Slice, reflect.Array:
		return plain(t.Elem(), depth+1)
	case reflect.Map:
		return plain(t.Key(), depth+1) && plain(t.Elem(), depth+1)
	case reflect.Struct:
		if t == timeType {
			return true
		}
		for i := 0; i < t.NumField(); i++ {
			if !plain(t.Field(i).Type, depth+1) {
				return false
			}
		}
		return true
	}
	return false
}

func dump(sb *strings.Builder, v reflect.Value, depth int, skip map[string]bool) {
	if depth > 4 {
		return
	}
	switch v.Kind() {
	case reflect.Struct:
		t := v.Type()
		if t == timeType {
			fmt.Fprintf(sb, "%v", v)
			return
		}
		sb.WriteString("{")
		for i := 0; i < v.NumField(); i++ {
			f := t.Field(i)
			if skip[f.Name] {
				continue
			}
			fv := v.Field(i)
			switch {
			case f.Type == syncMapType && fv.CanAddr():
				// a sync.Map cache: its keys (and plain values) are state like any other map's
				m := reflect.NewAt(f.Type, unsafe.Pointer(fv.UnsafeAddr())).Interface().(*sync.Map)
				var ks []string
				m.Range(func(k, val any) bool {
					s := fmt.Sprintf("%v", k)
					if val != nil && plain(reflect.TypeOf(val), 0) {
						var vb strings.Builder
						dump(&vb, reflect.ValueOf(val), depth+1, skip)
						s += ":" + vb.String()
					}
					ks = append(ks, s)
					return true
				})
				sort.Strings(ks)
				fmt.Fprintf(sb, "%s.syncmap=%v;", f.Name, ks)
			case plain(f.Type, 0):
				fmt.Fprintf(sb, "%s=", f.Name)
				dump(sb, fv, depth+1, skip)
				sb.WriteString(";")
			case fv.Kind() == reflect.Map && plain(f.Type.Key(), 0):
				// non-plain values: keys only
				var ks []string
				for _, k := range fv.MapKeys() {
					ks = append(ks, fmt.Sprintf("%v", k))
				}
				sort.Strings(ks)
				fmt.Fprintf(sb, "%s.keys=%v;", f.Name, ks)
			case fv.Kind() == reflect.Struct:
				fmt.Fprintf(sb, "%s=", f.Name)
				dump(sb, fv, depth+1, skip)
				sb.WriteString(";")
			case fv.Kind() == reflect.Slice:
				fmt.Fprintf(sb, "%s.len=%d;", f.Name, fv.Len())
			}
		}
		sb.WriteString("}")
	case reflect.Map:
		var ks []string
		m := map[string]reflect.Value{}
		for _, k := range v.MapKeys() {
			s := fmt.Sprintf("%v", k)
			ks = append(ks, s)
			m[s] = v.MapIndex(k)
		}
		sort.Strings(ks)
		sb.WriteString("map[")
		for _, k := range ks {
			fmt.Fprintf(sb, "%s:", k)
			dump(sb, m[k], depth+1, skip)
			sb.WriteString(" ")
		}
		sb.WriteString("]")
	case reflect.Slice, reflect.Array:
		sb.WriteString("[")
		for i := 0; i < v.Len(); i++ {
			dump(sb, v.Index(i), depth+1, skip)
			sb.WriteString(" ")
		}
		sb.WriteString("]")
	default:
		fmt.Fprintf(sb, "%v", v)
	}
}

// Package par: deterministic work sharding over all cores.
package par

import (
	"runtime"
	"sync"
	"sync/atomic"
)

// For runs f(i) for i in [0,n) on all cores; stop() is polled between items.
func For(n int, stop func() bool, f func(i int)) {
	w := runtime.NumCPU()
	if w > n {
		w = n
	}
	if w < 1 {
		w = 1
	}
	var next int64 = -1
	var wg sync.WaitGroup
	for k := 0; k < w; k++ {
		wg.Add(1)
		go func() {
			defer wg.Done()
			for {
				i := int(atomic.AddInt64(&next, 1))
				if i >= n {
					return
				}
				if stop != nil && stop() {
					return
				}
				f(i)
			}
		}()
	}
	wg.Wait()
}

// Serial is For on a single worker.
func Serial(n int, stop func() bool, f func(i int)) {
	for i := 0; i < n; i++ {
		if stop != nil && stop() {
			return
		}
		f(i)
	}
}

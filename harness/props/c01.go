package props

import (
	"fmt"
	"strings"
	"time"

	"github.com/istio-ecosystem/authservice/zzverif/ev"
	"github.com/istio-ecosystem/authservice/zzverif/schedx"
	"github.com/istio-ecosystem/authservice/zzverif/seqx"
	"github.com/istio-ecosystem/authservice/zzverif/world"
)

// C01: fail-closed. Every OK verdict must be justified by the abstract session state and by a fault-free check.

type c01Replay struct {
	Spec    world.Spec   `json:"spec"`
	History []seqx.Event `json:"history"`
}

// c01Justify returns "" when an OK verdict is justified, else the reason it is not.
func c01Justify(h *hSys, o *hObs) string {
	w := h.W
	if o.SID == "" {
		return "no-cookie"
	}
	if !o.PreHad || o.PreGhost == nil || o.PreGhost.Tokens == nil {
		return "no-session-with-tokens"
	}
	for _, c := range o.Calls {
		if c.Failed {
			return fmt.Sprintf("env-failure kind=%s method=%s fault=%s", c.Kind, c.Method, c.Fault)
		}
	}
	if o.RedisFailed {
		return "env-failure kind=redis-command"
	}
	if abs := w.AbsTimeout(); abs > 0 && !o.PreBorn.IsZero() && o.Now.After(o.PreBorn.Add(abs)) {
		return "session-past-its-absolute-timeout"
	}
	t := o.PreGhost.Tokens
	// (ii) renewed by a successful refresh exchange during this very check
	for _, tr := range o.TokenReqs {
		if tr.Grant == "refresh_token" && tr.Result == "ok" && tr.Answered == 200 && tr.HonestOK {
			return ""
		}
	}
	// (i) unexpired by the provider's ledger
	is := w.IdP.Issued[t.IDToken]
	if is == nil || is.Kind != "id" {
		return "stored-id-token-not-issued-by-provider"
	}
	if is.Exp.Before(o.Now) {
		return "id-token-expired-no-successful-refresh"
	}
	if w.Cfg.GetAccessToken() != nil && t.AccessToken != "" {
		// (judged by the provider's ledger when the provider announced the expiry; else by what the service noted down)
		if ai := w.IdP.Issued[t.AccessToken]; ai != nil && ai.Exp.Before(o.Now) && (ai.Announced || !t.AccessTokenExpiresAt.IsZero()) {
			return "access-token-expired-no-successful-refresh"
		}
	}
	return ""
}

func c01Monitor(run *ev.Run, spec world.Spec) hMonitor {
	return func(h *hSys, o *hObs, hist []seqx.Event) {
		kind := "app"
		if strings.HasPrefix(o.Req.Path, "/callback") {
			kind = "callback"
		} else if strings.HasPrefix(o.Req.Path, world.LogoutPath) {
			kind = "logout"
		}
		verdict := "deny"
		if o.Res.OK {
			verdict = "OK"
		} else if o.Res.Crashed {
			verdict = "crash"
		} else if o.Res.Err != "" {
			verdict = "error"
		} else if o.AuthzLoc != "" {
			verdict = "login-redirect"
		}
		fault := "none"
		for _, c := range o.Calls {
			if c.Fault != "" {
				fault = c.Kind + ":" + c.Method + ":" + c.Fault
			}
		}
		ans := ""
		if o.Event.Plan != nil && o.Event.Plan.Answer != nil {
			ans = o.Event.Plan.Answer.Name
		}
		if fault != "none" || verdict == "OK" || ans != "" {
			run.Class(fmt.Sprintf("%s|%s|fault=%s|idp=%s|had=%v", kind, verdict, fault, ans, o.PreHad))
		}
		if o.Res.Panic != "" {
			run.Incident("panic (C15's subject): " + firstLine(o.Res.Panic))
			return
		}
		if !o.Res.OK {
			return
		}
		if why := c01Justify(h, o); why != "" {
			full := append(append([]seqx.Event{}, hist...), o.Event)
			run.Violation("C01 unjustified-OK "+why+" store="+spec.Store,
				fmt.Sprintf("request %+v answered OK although: %s (env calls: %+v)", o.Req, why, summarizeCalls(o.Calls)),
				c01Replay{Spec: spec, History: full})
		}
	}
}

func firstLine(s string) string {
	if i := strings.IndexByte(s, '\n'); i >= 0 {
		return s[:i]
	}
	return s
}

func summarizeCalls(cs []world.EnvCall) []string {
	var out []string
	for _, c := range cs {
		s := c.Kind + ":" + c.Method
		if c.Fault != "" {
			s += "!" + c.Fault
		}
		out = append(out, s)
	}
	return out
}

// c01LoginPrefix is a completed login (the non-initial start state of the expiry specs).
var c01LoginPrefix = []seqx.Event{
	{Kind: "req", Req: &world.Req{Path: "/app"}},
	{Kind: "req", Req: &world.Req{Path: "/callback?code={code#0}&state={state#0}", Cookie: "#0"}},
}

func c01Opts(tier string, spec world.Spec) hOpts {
	bad := []world.Answer{
		{Name: "http500", Status: 500},
		{Name: "evil-foreign-key", Evil: "foreign-same-kid"},
		{Name: "not-bearer", TokenType: "mac"},
	}
	o := hOpts{Spec: spec, MaxDev: 1, Faults: true, RedisFaults: spec.Store == "redis", BadIdP: bad, Logout: true, Attacker: true, Advance: true,
		GoodIdP: []world.Answer{world.Honest, {Name: "honest-no-refresh", NoRefresh: true}}, MaxSessions: 3}
	if tier == "thorough" {
		o.MaxDev = 2
		o.Pairs = true
		o.ExtraPaths = true
		o.GoodIdP = append(o.GoodIdP, world.Answer{Name: "honest-no-expires-in", NoExpiresIn: true})
		o.MaxSessions = 4
	}
	if spec.Replicas == 2 {
		o.Faults, o.RedisFaults, o.BadIdP, o.MaxSessions = false, false, nil, 2
	}
	if spec.Shapes {
		// one session, no faults, every honest answer shape, one level deeper
		o.Faults, o.RedisFaults, o.BadIdP, o.Attacker, o.MaxSessions, o.MaxDev, o.Pairs = false, false, nil, false, 1, 0, false
		o.GoodIdP = []world.Answer{world.Honest, {Name: "honest-no-refresh", NoRefresh: true},
			{Name: "honest-refresh-omits-id-token", NoIDToken: true, KeepRT: true},
			{Name: "honest-access-token-of-3s", AccessLife: 3},
			{Name: "honest-no-expires-in", NoExpiresIn: true},
			{Name: "honest-azp", Azp: true}}
	}

	if spec.Abs > 0 {
		o.Prefix = c01LoginPrefix
		o.MaxSessions = 2
		o.RedisFaults = false
		o.BadIdP = o.BadIdP[:1]
		if tier != "thorough" {
			o.Faults = false // (environment faults on expired sessions: thorough tier)
		}
	}
	return o
}

func c01Run(run *ev.Run) {
	run.Rule = "breadth-first search over histories of requests (app/callback/logout x cookie none/each live session/stale/attacker-chosen), clock advances to and just past the earliest token expiry (by the provider's ledger and by what the service noted down), provider answers (honest shapes - with/without refresh token, refresh without id_token, access token of 3 s, no expires_in, azp - on a single session one level deeper; HTTP 500, forged signature, non-Bearer as deviations) and environment faults (every store call, token-endpoint call and key lookup of the check failing before/after effect or crashing there; pairs in thorough) on the real handler + real store; state = canonical store content + provider ledger; a class is (request kind, verdict, fault position, provider answer, session present); first, all interleavings (pre-emption bound 2 quick, 3 thorough) of two overlapping checks of one expired session against a provider that rotates refresh tokens (honest / refresh without id_token / rotate once; memory and Redis), each OK judged for the thread that produced it"
	run.Assumptions = []string{
		"handler-level world: Process() on a handler built per check exactly as ExtAuthZFilter.Check builds it; the filter loop itself is C08's subject",
		"session time-outs are 0 except in the two expiry specs (absolute time-out 900 s); idle time-outs and limits at the boundary are C10's subject",
		"crash = process death: the memory store is lost, a Redis store is re-attached to the same server",
		"values outside the alphabet are not covered",
	}
	depth := 5
	if run.Tier == "thorough" {
		depth = 6
	}
	var total seqx.Stats
	defer debugLogTail(run, 4, func(s world.Spec) seqx.Model { return c01Opts("quick", s).model(c01Monitor(run, s)) },
		world.Spec{Store: "memory", Forward: true, Logout: true})
	// overlapping checks of one expired session (small, first): the provider rotates the refresh token, so it honours
	// one refresh and refuses the other; each OK verdict must be justified for the check that produced it
	for _, sc := range c01ConcScenarios(run.Tier) {
		cs := schedx.Explore(run, "C01", sc)
		total.Histories += cs.Schedules
		total.Transitions += cs.Points
		run.Class(fmt.Sprintf("overlapping-checks|%s|outcomes=%d", sc.Name, len(cs.Distinct)))
		if !cs.Complete {
			run.Cap("scenario not completed: " + sc.Name)
		}
	}
	for _, spec := range []world.Spec{
		// (the small searches first: a deadline cuts the big ones, not these)
		// honest answer shapes (refresh without id_token, access token of 3 s, no expires_in, azp) on one session
		{Store: "memory", Forward: true, Logout: true, Shapes: true},
		{Store: "redis", Forward: true, Logout: true, Shapes: true},
		// expired sessions: absolute time-out of 900 s with tokens that live 600 s, starting from a completed login
		{Store: "memory", Forward: true, Logout: true, Abs: 900, TokenLife: 600},
		{Store: "redis", Forward: true, Logout: true, Abs: 900, TokenLife: 600},
		// ... and with an idle time-out next to it that a session used every 600 s never reaches
		{Store: "memory", Forward: true, Logout: true, Abs: 900, Idle: 800, TokenLife: 600},
		{Store: "redis", Forward: true, Logout: true, Abs: 900, Idle: 800, TokenLife: 600},
		// two service replicas on one Redis server, every request served by either
		{Store: "redis", Forward: true, Logout: true, Replicas: 2},
		// the full fault alphabet
		{Store: "memory", Forward: true, Logout: true},
		{Store: "redis", Forward: true, Logout: true},
		{Store: "memory", Forward: false, Logout: true},
	} {
		if spec.Store == "memory" && !spec.Forward && run.Tier != "thorough" {
			continue
		}
		t0 := time.Now()
		o := c01Opts(run.Tier, spec)
		if run.Tier == "thorough" {
			// pass 1: depth 6 with single deviations (Redis command faults: at depth 5, below); pass 2: depth 4 with pairs
			o.MaxDev, o.Pairs = 1, false
			if !spec.Shapes && spec.Abs == 0 && spec.Replicas == 0 {
				o.RedisFaults = false
			}
		}
		m := o.model(c01Monitor(run, spec))
		m.MaxDepth = depth
		if spec.Shapes {
			m.MaxDepth = depth + 1
		}
		if run.Tier == "thorough" && (spec.Abs > 0 || spec.Replicas > 0) {
			m.MaxDepth = depth - 1 // (with environment faults, which the quick tier leaves out for these specs)
		}
		if run.Tier == "thorough" || (spec.Abs == 0 && spec.Replicas == 0 && !spec.Shapes) {
			// the two big searches fill their time budget; the merge check runs on the expiry and replica specs here, and
			// in the thorough tier's pairs pass on all of them
			m.CheckMerges = -1
		}
		st := seqx.Explore(run, m)
		if run.Tier == "thorough" && spec.Store == "redis" && !spec.Shapes && spec.Abs == 0 && spec.Replicas == 0 {
			// every single Redis command of a check failing before / after the server executed it: as in the quick tier
			m1 := c01Opts("quick", spec).model(c01Monitor(run, spec))
			m1.MaxDepth = depth - 1
			st1 := seqx.Explore(run, m1)
			st.States += st1.States
			st.Transitions += st1.Transitions
			st.Histories += st1.Histories
			st.Replayed += st1.Replayed
			st.Complete = st.Complete && st1.Complete
		}
		if run.Tier == "thorough" && !spec.Shapes && spec.Abs == 0 && spec.Replicas == 0 {
			o2 := c01Opts(run.Tier, spec)
			o2.MaxSessions = 3
			o2.RedisFaults = false
			m2 := o2.model(c01Monitor(run, spec))
			m2.MaxDepth = 4
			st2 := seqx.Explore(run, m2)
			st.States += st2.States
			st.Transitions += st2.Transitions
			st.Histories += st2.Histories
			st.Replayed += st2.Replayed
			if !st2.Complete {
				st.Complete = false
			}
			run.Extra[fmt.Sprintf("levels_pairs_%s_fwd=%v", spec.Store, spec.Forward)] = st2.LevelSizes
		}
		total.States += st.States
		total.Transitions += st.Transitions
		total.Histories += st.Histories
		total.Replayed += st.Replayed
		if !st.Complete {
			run.Cap(fmt.Sprintf("store=%s forward=%v: search stopped at depth %d of %d", spec.Store, spec.Forward, st.DepthDone, depth))
		}
		name := fmt.Sprintf("%s_fwd=%v_abs=%d_idle=%d_replicas=%d_shapes=%v", spec.Store, spec.Forward, spec.Abs, spec.Idle, spec.Replicas, spec.Shapes)
		run.Extra["levels_"+name] = st.LevelSizes
		run.Extra["wall_s_"+name] = int(time.Since(t0).Seconds())
	}
	// as assembled at start-up: two filters with the SAME cookie name on different session stores (two databases of
	// one Redis server; two servers): a session established at one is an unknown session at the other - never OK
	for _, layout := range [][2]string{{"r1/0", "r1/1"}, {"r1", "r2"}, {"r1/2", "r1"}} {
		a := world.FilterSpec{Name: "a", Realm: "idp-a.test", ClientID: "client-a", Secret: "sa", Redis: layout[0], Forward: true}
		b := world.FilterSpec{Name: "b", Realm: "idp-b.test", ClientID: "client-b", Secret: "sb", Redis: layout[1], Forward: true}
		for _, order := range [][2]world.FilterSpec{{a, b}, {b, a}} {
			sw, err := world.NewSWorld([]world.FilterSpec{order[0], order[1]}, nil)
			if err != nil {
				run.HarnessError("C01 start-up pair: " + err.Error())
				break
			}
			for _, at := range []int{0, 1} {
				sid, name, err := sw.Login(order[at])
				if err != nil {
					run.HarnessError("C01 start-up pair login: " + err.Error())
					break
				}
				other := order[1-at]
				r := sw.Do(world.SReq{Tenant: other.Name, Path: "/" + other.Name + "/app", Cookies: map[string]string{name: sid}})
				total.Transitions++
				run.Class(fmt.Sprintf("startup-pair|stores=%s,%s|ok=%v", layout[0], layout[1], r.OK))
				if r.OK {
					run.Violation("C01 unjustified-OK session-of-another-store store=redis server-pair",
						fmt.Sprintf("filters %s (%s) and %s (%s), configured in this order: a session established at %s is answered OK by %s, whose configured store never held it",
							order[0].Name, order[0].Redis, order[1].Name, order[1].Redis, order[at].Name, other.Name), map[string]any{"level": "server-pair", "filters": order})
				}
			}
			sw.Close()
		}
	}
	run.States, run.Transitions, run.Traces, run.Evals = total.States, total.Transitions, total.Histories, total.Transitions
	run.Extra["replayed_events"] = total.Replayed
	run.Extra["depth"] = depth
}

func c01ConcScenarios(tier string) []schedx.Scenario {
	b := 2
	if tier == "thorough" {
		b = 3
	}
	var scs []schedx.Scenario
	for _, st := range []string{"memory", "redis"} {
		for _, ans := range []world.Answer{{Name: "honest"}, {Name: "refresh-without-id-token", NoIDToken: true}, {Name: "rotate-once", RotateOnce: true}} {
			scs = append(scs, c01ConcScenario(st, ans, b))
		}
	}
	return scs
}

// c01ConcScenario: two checks on ONE session whose tokens have expired overlap. An OK verdict of a check is justified
// by a successful refresh exchange of THAT check (sent by its thread, answered 200 with an honest body), or else by
// forwarding an ID token that is unexpired by the provider's ledger (for instance the one the other check just
// obtained); a refused or failed refresh justifies nothing.
func c01ConcScenario(store string, ans world.Answer, bound int) schedx.Scenario {
	return schedx.Scenario{Name: fmt.Sprintf("2 checks on one expired session idp=%s store=%s", ans.Name, store), Bound: bound, PanicIsViolation: true,
		Setup: func() *schedx.Instance {
			w := world.New(world.Spec{Store: store, Forward: true})
			sid := c15Prepare(w, "expired")
			w.Envs = []*world.Env{{}, {}}
			a := ans
			var res [2]world.Result
			bodies := make([]func(), 2)
			for i := range bodies {
				i := i
				bodies[i] = func() { res[i] = w.Do(world.Req{Path: "/", Cookie: sid}, world.Plan{Answer: &a}) }
			}
			return &schedx.Instance{Threads: bodies, Close: w.Close, Finish: func(x *schedx.Exec) (string, []schedx.Violation) {
				var viols []schedx.Violation
				var obs strings.Builder
				for i, r := range res {
					refreshed := false
					for _, tr := range w.IdP.TokenReqs {
						if tr.Thread == i && tr.Grant == "refresh_token" && tr.Result == "ok" && tr.Answered == 200 && tr.HonestOK {
							refreshed = true
						}
					}
					fmt.Fprintf(&obs, "t%d(ok=%v refreshed=%v) ", i, r.OK, refreshed)
					if !r.OK || refreshed {
						continue
					}
					why := "no-id-token-forwarded"
					for _, h := range r.Headers {
						if strings.EqualFold(h[0], "authorization") {
							tok := strings.TrimPrefix(h[1], "Bearer ")
							is := w.IdP.Issued[tok]
							switch {
							case is == nil || is.Kind != "id":
								why = "forwarded-id-token-not-issued-by-provider"
							case is.Exp.Before(w.Now()):
								why = "id-token-expired-no-successful-refresh"
							default:
								why = ""
							}
						}
					}
					if why != "" {
						viols = append(viols, schedx.Violation{Signature: fmt.Sprintf("unjustified-OK overlapping-checks reason=%s idp=%s store=%s", why, ans.Name, store),
							Message: fmt.Sprintf("thread %d is answered OK although its own refresh did not succeed and the tokens it forwards are not valid (%s)", i, why)})
					}
				}
				return obs.String(), viols
			}}
		}}
}

func c01ReplayFn(path string) int {
	var sr schedx.Replay
	if _, err := loadReplay(path, &sr); err == nil && sr.Scenario != "" {
		for _, sc := range append(c01ConcScenarios("quick"), c01ConcScenarios("thorough")...) {
			if sc.Name == sr.Scenario {
				obs, v, err := schedx.ReplayOnce(sc, sr.Choices)
				if err != nil {
					fmt.Println(err)
					return 2
				}
				return replayVerdict("C01", len(v) > 0, obs)
			}
		}
		return 2
	}
	var rp c01Replay
	if _, err := loadReplay(path, &rp); err != nil {
		fmt.Println(err)
		return 2
	}
	run := ev.NewRun("C01", "replay", "/dev/null")
	run.VerifDir = "/nonexistent"
	violated := false
	msg := ""
	mon := func(h *hSys, o *hObs, hist []seqx.Event) {
		if o.Res.OK {
			if why := c01Justify(h, o); why != "" {
				violated = true
				msg = why
			}
		}
	}
	o := c01Opts("quick", rp.Spec)
	m := o.model(mon)
	s := seqx.Replay(m, rp.History)
	s.Close()
	return replayVerdict("C01", violated, msg)
}

func init() { Registry["C01"] = Prop{Run: c01Run, Replay: c01ReplayFn} }

package props

import (
	"fmt"
	"sort"
	"strings"

	"github.com/istio-ecosystem/authservice/zzverif/ev"
	"github.com/istio-ecosystem/authservice/zzverif/schedx"
	"github.com/istio-ecosystem/authservice/zzverif/seqx"
	"github.com/istio-ecosystem/authservice/zzverif/world"
)

// C02: only IdP-issued, validated tokens are bound to a session and forwarded.

func c02Evil() []world.Answer {
	var as []world.Answer
	for _, k := range world.EvilKinds {
		as = append(as, world.Answer{Name: "evil:" + k, Evil: k})
	}
	return as
}

// c02Validate is the independent reference validator. login=true additionally requires the session's nonce.
func c02Validate(w *world.World, token string, login bool, nonce string) string {
	claims, err := world.VerifyIndependent(token, w.Keys...)
	if err != nil {
		return "signature: " + err.Error()
	}
	if !world.AudContains(claims, w.Cfg.GetClientId()) {
		return fmt.Sprintf("audience %v does not contain the client id", claims["aud"])
	}
	if login {
		n, ok := claims["nonce"].(string)
		if !ok || n != nonce || nonce == "" {
			return fmt.Sprintf("nonce %v is not the nonce issued for the session", claims["nonce"])
		}
	}
	return ""
}

func c02Monitor(run *ev.Run, spec world.Spec) hMonitor {
	viol := func(sig, msg string, hist []seqx.Event, e seqx.Event) {
		full := append(append([]seqx.Event{}, hist...), e)
		run.Violation("C02 "+sig, msg, c01Replay{Spec: spec, History: full})
	}
	return func(h *hSys, o *hObs, hist []seqx.Event) {
		w := h.W
		if o.Res.Panic != "" {
			run.Incident("panic (C15's subject): " + firstLine(o.Res.Panic))
			return
		}
		ans := "honest"
		evil := ""
		if o.Event.Plan != nil && o.Event.Plan.Answer != nil {
			ans = o.Event.Plan.Answer.Name
			evil = o.Event.Plan.Answer.Evil
		}
		path := "refresh"
		isLogin := false
		for _, tr := range o.TokenReqs {
			if tr.Grant == "authorization_code" {
				path = "login"
				isLogin = true
			}
		}
		if len(o.TokenReqs) > 0 {
			run.Class(fmt.Sprintf("%s|%s|ok=%v|code=%v", path, ans, o.Res.OK, o.Res.Code))
		}
		// (0) nothing becomes part of a session behind the store interface (where validation precedes every write)
		if strings.HasPrefix(o.Drift, "tokens:") {
			viol("session-content-changed-behind-the-store-interface path="+path, o.Drift+" - tokens/login state reached a session without a store write, i.e. without passing the validation that precedes every write", hist, o.Event)
		}
		// (i) what gets bound
		for _, c := range o.Calls {
			if c.Method != "SetTokenResponse" || c.Tokens == nil {
				continue
			}
			tok := c.Tokens.IDToken
			fromLedger := false
			for _, tr := range o.TokenReqs {
				if tr.IDToken == tok && tr.Answered == 200 {
					fromLedger = true
				}
			}
			already := o.PreGhost != nil && o.PreGhost.Tokens != nil && o.PreGhost.Tokens.IDToken == tok && c.SID == o.SID
			if !fromLedger && !already {
				viol("bound-token-of-unknown-origin path="+path, fmt.Sprintf("SetTokenResponse(%s) stores an ID token that the token endpoint did not return in this check and that was not bound to the session", c.SID), hist, o.Event)
				continue
			}
			nonce := ""
			if o.PreGhost != nil && o.PreGhost.State != nil {
				nonce = o.PreGhost.State.Nonce
			}
			if why := c02Validate(w, tok, isLogin && fromLedger, nonce); why != "" {
				viol(fmt.Sprintf("bound-invalid-token path=%s answer=%s", path, ans), fmt.Sprintf("ID token bound to session %s although: %s (grammar element %q)", c.SID, why, evil), hist, o.Event)
			}
			if c.SID != o.SID {
				viol("bound-under-other-session", fmt.Sprintf("tokens stored under %s while the request presented %s", c.SID, o.SID), hist, o.Event)
			}
		}
		// (ii) what gets forwarded
		if o.Res.OK {
			g := w.Store.Ghost[o.SID]
			if g == nil || g.Tokens == nil {
				viol("forwarded-without-bound-session", "OK although nothing is bound to the presented session", hist, o.Event)
				return
			}
			enc := func(pre, v string) string {
				if pre != "" {
					return pre + " " + v
				}
				return v
			}
			want := [][2]string{{w.Cfg.GetIdToken().GetHeader(), enc(w.Cfg.GetIdToken().GetPreamble(), g.Tokens.IDToken)}}
			if w.Cfg.GetAccessToken() != nil && g.Tokens.AccessToken != "" {
				want = append(want, [2]string{w.Cfg.GetAccessToken().GetHeader(), enc(w.Cfg.GetAccessToken().GetPreamble(), g.Tokens.AccessToken)})
			}
			sort.Slice(want, func(i, j int) bool { return want[i][0] < want[j][0] })
			if fmt.Sprint(want) != fmt.Sprint(o.Res.Headers) {
				viol("forwarded-mismatch", fmt.Sprintf("upstream headers %v, expected exactly %v", redact(o.Res.Headers), redact(want)), hist, o.Event)
			}
			if ok := o.Res.Raw.GetOkResponse(); ok != nil && (len(ok.HeadersToRemove) > 0 || len(ok.QueryParametersToSet) > 0 || len(ok.ResponseHeadersToAdd) > 0) {
				viol("ok-response-extra-mutations", "OK response carries more than the token headers", hist, o.Event)
			}
		}
	}
}

func redact(hs [][2]string) []string {
	var out []string
	for _, h := range hs {
		v := h[1]
		if len(v) > 40 {
			v = v[:24] + "…" + v[len(v)-8:]
		}
		out = append(out, h[0]+": "+v)
	}
	return out
}

func strp(s string) *string { return &s }

func c02Specs(tier string) []world.Spec {
	specs := []world.Spec{
		{Store: "memory", Forward: true},
		{Store: "memory", Forward: true, IDHeader: "x-id-token", IDPreamble: strp(""), ATHeader: "authorization", ATPreamble: strp("Bearer")},
		{Store: "memory", Forward: false, IDHeader: "x-custom", IDPreamble: strp("Token")},
	}
	if tier == "thorough" {
		specs = append(specs,
			world.Spec{Store: "redis", Forward: true},
			world.Spec{Store: "redis", Forward: true, IDHeader: "x-id", IDPreamble: strp("JWT"), ATHeader: "x-at", ATPreamble: strp("")},
			world.Spec{Store: "memory", Forward: true, IDPreamble: strp(""), ATPreamble: strp("")},
		)
	}
	return specs
}

func c02Opts(tier string, spec world.Spec) hOpts {
	o := hOpts{Spec: spec, Advance: true, MaxDev: 1, BadIdP: c02Evil(), OnlyLive: false, MaxSessions: 3,
		GoodIdP: []world.Answer{world.Honest, {Name: "honest-aud-array-rsa", AudArray: true, RSA: true}, {Name: "honest-refresh-omits-id", NoIDToken: true},
			{Name: "honest-no-expires-in", NoExpiresIn: true}, {Name: "honest-access-token-of-3s", AccessLife: 3}}}
	if tier == "thorough" {
		o.MaxSessions = 3
	}
	return o
}

func c02Run(run *ev.Run) {
	run.Rule = "BFS over login/refresh histories in which the provider answers the token request of a check either honestly (5 shapes: plain, aud array + RSA, refresh without id_token, no expires_in, access token of 3 s) or with one element of a 37-element adversarial ID-token grammar (deviation; <=1 per history; thorough adds <=2 per history at depth 5 for the first two configurations), for several header/preamble configurations; every SetTokenResponse is re-validated by an independent stdlib verifier and every OK's upstream headers are compared with the bound tokens; class = (path, answer, verdict)"
	run.Assumptions = []string{
		"grammar elements are unambiguously invalid; validly signed tokens in non-compact serialisation and surrounding whitespace are not in the grammar",
		"nonce elements are deviations on the login path only (statement: nonce 'at login'); on refresh they are expected to be tolerated and are still checked for signature and audience",
		"independent validator: compact form split by hand, crypto/ecdsa + crypto/rsa, algorithm fixed by key type",
	}
	depth := 6
	if run.Tier == "thorough" {
		depth = 7
	}
	var total seqx.Stats
	defer debugLogTail(run, 5, func(s world.Spec) seqx.Model { return c02Opts("quick", s).model(c02Monitor(run, s)) }, c02Specs("quick")[0])
	for i, spec := range c02Specs(run.Tier) {
		m := c02Opts(run.Tier, spec).model(c02Monitor(run, spec))
		m.MaxDepth = depth
		st := seqx.Explore(run, m)
		if run.Tier == "thorough" && i < 2 {
			// pairs of adversarial answers in one history, two levels less deep
			o2 := c02Opts(run.Tier, spec)
			o2.MaxDev = 2
			m2 := o2.model(c02Monitor(run, spec))
			m2.MaxDepth = depth - 2
			st2 := seqx.Explore(run, m2)
			st.States += st2.States
			st.Transitions += st2.Transitions
			st.Histories += st2.Histories
			st.Replayed += st2.Replayed
			st.Complete = st.Complete && st2.Complete
		}
		total.States += st.States
		total.Transitions += st.Transitions
		total.Histories += st.Histories
		total.Replayed += st.Replayed
		if !st.Complete {
			run.Cap(fmt.Sprintf("spec %d: search stopped at depth %d of %d", i, st.DepthDone, depth))
		}
		run.Extra[fmt.Sprintf("levels_spec%d", i)] = st.LevelSizes
	}
	// interleavings: a second check on the same session while a refresh with an adversarial answer is in flight
	b := 2
	evils := []string{"foreign-same-kid", "aud-other", "alg-none"}
	if run.Tier == "thorough" {
		b = -1
		evils = append(evils, "hs256-pub-pem", "payload-swapped", "sig-stripped")
	}
	for _, st := range []string{"memory", "redis"} {
		for _, ek := range evils {
			bb := b
			if st == "redis" && b < 0 {
				bb = 3 // every Redis command is a scheduling point: unbounded interleavings are out of reach there
			}
			cs := schedx.Explore(run, "C02", c02Scenario(st, ek, bb))
			total.Histories += cs.Schedules
			total.Transitions += cs.Points
			total.States += int64(len(cs.Distinct))
			if !cs.Complete {
				run.Cap("scenario not completed: " + ek + "/" + st)
			}
		}
	}
	// server level: two filters whose providers coincide in all but a port / a discovery selector - a filter's code is
	// exchanged at ITS provider and the ID token it binds and forwards was issued by ITS provider
	pairs := srvRunPairs(run, func(o srvPairObs, replay any) {
		if o.LoginErr != "" {
			run.Violation("C02 login-does-not-complete server-pair", fmt.Sprintf("%s, filter %s used first: login at filter %s fails: %s (token requests per realm %v)", o.Pair, o.First, o.Second.Name, o.LoginErr, o.TokenReqsAt), replay)
			return
		}
		if o.TokenReqsAt[o.Second.Realm] == 0 {
			run.Violation("C02 code-exchanged-at-another-filters-provider", fmt.Sprintf("%s, filter %s used first: the login at filter %s completed without a token request reaching its own provider (requests per realm %v)", o.Pair, o.First, o.Second.Name, o.TokenReqsAt), replay)
		}
		if o.ProbeOK && o.IDIssuer != o.Second.Realm {
			run.Violation("C02 forwarded-token-of-another-filters-provider", fmt.Sprintf("%s, filter %s used first: filter %s forwards an ID token issued by %q", o.Pair, o.First, o.Second.Name, o.IDIssuer), replay)
		}
	})
	total.Histories += pairs
	run.Extra["server_level_pairs"] = pairs
	run.States, run.Transitions, run.Traces, run.Evals = total.States, total.Transitions, total.Histories, total.Transitions
	run.Extra["replayed_events"] = total.Replayed
	run.Extra["depth"] = depth
	run.Extra["grammar"] = strings.Join(world.EvilKinds, ",")
}

// c02Scenario: two checks on the same expired session while the provider answers the refresh with an adversarial
// token: whatever the interleaving (store calls, token call, key lookup), no check may forward a token that fails the
// independent validator, and nothing invalid may stay bound.
func c02Scenario(store, evil string, bound int) schedx.Scenario {
	return schedx.Scenario{Name: fmt.Sprintf("2 checks on one expired session, refresh answered %s, store=%s", evil, store), Bound: bound,
		Setup: func() *schedx.Instance {
			w := world.New(world.Spec{Store: store, Forward: true})
			sid := c15Prepare(w, "expired")
			w.Envs = []*world.Env{{}, {}}
			ans := world.Answer{Name: "evil:" + evil, Evil: evil}
			var res [2]world.Result
			bodies := make([]func(), 2)
			for i := range bodies {
				i := i
				bodies[i] = func() { res[i] = w.Do(world.Req{Path: "/", Cookie: sid}, world.Plan{Answer: &ans}) }
			}
			return &schedx.Instance{Threads: bodies, Close: w.Close, Finish: func(x *schedx.Exec) (string, []schedx.Violation) {
				var viols []schedx.Violation
				var obs []string
				for i, r := range res {
					obs = append(obs, fmt.Sprintf("t%d(ok=%v code=%v)", i, r.OK, r.Code))
					if !r.OK {
						continue
					}
					for _, h := range r.Headers {
						if h[0] == w.Cfg.GetIdToken().GetHeader() {
							tok := strings.TrimPrefix(h[1], w.Cfg.GetIdToken().GetPreamble()+" ")
							if why := c02Validate(w, tok, false, ""); why != "" {
								viols = append(viols, schedx.Violation{Signature: "forwarded-unvalidated-token path=refresh answer=evil:" + evil,
									Message: fmt.Sprintf("thread %d was answered OK and forwards an ID token that fails validation: %s", i, why)})
							}
						}
					}
				}
				return strings.Join(obs, " "), viols
			}}
		}}
}

func c02ReplayFn(path string) int {
	var sr schedx.Replay
	if _, err := loadReplay(path, &sr); err == nil && sr.Scenario != "" {
		for _, st := range []string{"memory", "redis"} {
			for _, ek := range world.EvilKinds {
				if sc := c02Scenario(st, ek, -1); sc.Name == sr.Scenario {
					obs, v, err := schedx.ReplayOnce(sc, sr.Choices)
					if err != nil {
						fmt.Println(err)
						return 2
					}
					return replayVerdict("C02", len(v) > 0, obs)
				}
			}
		}
		return 2
	}
	var rp c01Replay
	if _, err := loadReplay(path, &rp); err != nil {
		fmt.Println(err)
		return 2
	}
	run := ev.NewRun("C02", "replay", "/nonexistent")
	m := c02Opts("thorough", rp.Spec).model(c02Monitor(run, rp.Spec))
	s := seqx.Replay(m, rp.History)
	s.Close()
	return replayVerdict("C02", run.Violations() > 0, "")
}

func init() { Registry["C02"] = Prop{Run: c02Run, Replay: c02ReplayFn} }

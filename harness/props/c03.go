package props

import (
	"fmt"
	"strconv"
	"strings"
	"sync/atomic"
	"time"

	"github.com/istio-ecosystem/authservice/zzverif/ev"
	"github.com/istio-ecosystem/authservice/zzverif/par"
	"github.com/istio-ecosystem/authservice/zzverif/world"
)

// C03: login completes — one pass through the provider ends in OK on the original URL.

type c03Case struct {
	Spec   world.Spec   `json:"spec"`
	Answer world.Answer `json:"answer"`
	Target string       `json:"target"`
	Tail   []int        `json:"tail_advances_s"`
	// Before: what this browser did earlier (it keeps its cookie): "" nothing | "abandoned-login" asked for another
	// URL, was sent to the provider and never went there | "abandoned-login-x2" twice | "logged-out" completed a login
	// for another URL and logged out
	Before string `json:"before,omitempty"`
	// Debug: driven with log_level all:debug
	Debug bool `json:"debug_logging,omitempty"`
}

var c03Targets = []string{"/", "/a%20b/c%2Fd?x=1&y=%2F", "/a/b", "/p?next=https%3A%2F%2Fe.com%2F%3Fa%3Db", "/s;v=1/@:,", "/docs/100%25/r%C3%A9sum%C3%A9.pdf", "/a?x=1&y=%2F"}

func c03Answers() []world.Answer {
	var as []world.Answer
	for _, noExp := range []bool{false, true} {
		for _, noRT := range []bool{false, true} {
			for _, arr := range []bool{false, true} {
				for _, tt := range []string{"Bearer", "bearer", "BEARER"} {
					for _, extra := range []bool{false, true} {
						as = append(as, world.Answer{
							Name:        fmt.Sprintf("expires_in=%v,refresh=%v,aud_array=%v,token_type=%s,extra=%v", !noExp, !noRT, arr, tt, extra),
							NoExpiresIn: noExp, NoRefresh: noRT, AudArray: arr, TokenType: tt, Extra: extra})
					}
				}
			}
		}
	}
	return as
}

func c03Specs() []world.Spec {
	var ss []world.Spec
	for _, store := range []string{"memory", "redis"} {
		for _, fwd := range []bool{true, false} {
			for _, prefix := range []string{"", "app1"} {
				for _, logout := range []bool{false, true} {
					for _, scopes := range [][]string{{"openid"}, {"openid", "email"}, {"email", "openid"}} {
						ss = append(ss, world.Spec{Store: store, Forward: fwd, CookiePrefix: prefix, Logout: logout, Scopes: scopes})
					}
				}
			}
		}
	}
	return ss
}

// c03Flow drives one redirect-following browser; returns ("", steps) or (signature+"\x00"+message, steps).
func c03Flow(c c03Case) (string, int) {
	if c.Debug {
		world.EnableDebugLogging()
	}
	w := world.New(c.Spec)
	defer w.Close()
	steps := 0
	fail := func(sig, msg string) (string, int) { return sig + "\x00" + msg, steps }
	ans := c.Answer
	plan := world.Plan{Answer: &ans}
	// 0. earlier life of this browser
	cookie0 := ""
	switch c.Before {
	case "abandoned-login", "abandoned-login-x2":
		n := 1
		if c.Before == "abandoned-login-x2" {
			n = 2
		}
		for k := 0; k < n; k++ {
			r0 := w.Do(world.Req{Path: fmt.Sprintf("/elsewhere/%d?tab=alerts", k), Cookie: cookie0}, plan)
			steps++
			if ns := w.SessionFromSetCookie(r0); ns != "" && ns != "deleted" {
				cookie0 = ns
			}
		}
	case "logged-out":
		r0 := w.Do(world.Req{Path: "/elsewhere?tab=alerts"}, plan)
		cookie0 = w.SessionFromSetCookie(r0)
		if cb0, _, err := w.IdP.Authorize(r0.Location); err == nil {
			rc := w.Do(world.Req{Path: strings.TrimPrefix(cb0, "https://app.test"), Cookie: cookie0}, plan)
			if ns := w.SessionFromSetCookie(rc); ns != "" && ns != "deleted" {
				cookie0 = ns
			}
			w.Do(world.Req{Path: world.LogoutPath, Cookie: cookie0}, plan)
			steps += 3
		}
	}
	authz0, exch0 := len(w.IdP.AuthzReqs), 0
	for _, tr := range w.IdP.TokenReqs {
		if tr.Grant == "authorization_code" {
			exch0++
		}
	}
	tokReq0 := len(w.IdP.TokenReqs)
	t0 := w.Now()
	// 1. unauthenticated request
	r1 := w.Do(world.Req{Path: c.Target, Cookie: cookie0}, plan)
	steps++
	if r1.Panic != "" || r1.Err != "" {
		return fail("error-on-first-request", r1.Panic+r1.Err)
	}
	if r1.OK || !world.IsRedirect(r1.HTTPStatus) || !strings.HasPrefix(r1.Location, w.Cfg.GetAuthorizationUri()) {
		return fail("no-login-redirect", fmt.Sprintf("first request answered code=%v http=%d location=%q", r1.Code, r1.HTTPStatus, r1.Location))
	}
	sid := w.SessionFromSetCookie(r1)
	if sid == "" {
		return fail("no-session-cookie", "login redirect without the session cookie")
	}
	// the browser is a user agent that honours cookie lifetimes (RFC 6265 Max-Age / Expires): dead is the virtual time
	// after which it no longer sends the session cookie (zero: a session cookie, kept)
	var dead time.Time
	jar := func(r world.Result) {
		for _, sc := range r.SetCookies {
			pc, err := parseSetCookie(sc)
			if err != nil || pc.Name != world.CookieName(c.Spec.CookiePrefix) {
				continue
			}
			dead = time.Time{}
			if ma, ok := pc.Attrs["max-age"]; ok {
				if n, err := strconv.Atoi(ma); err == nil {
					dead = w.Now().Add(time.Duration(n) * time.Second)
				}
			} else if ex, ok := pc.Attrs["expires"]; ok {
				if t, err := time.Parse(time.RFC1123, ex); err == nil {
					dead = t
				}
			}
		}
	}
	jar(r1)
	// 2. the provider's authorization endpoint
	cbURL, _, err := w.IdP.Authorize(r1.Location)
	if err != nil {
		return fail("provider-rejects-authorization-request", err.Error())
	}
	cbPath := strings.TrimPrefix(cbURL, "https://app.test")
	// 3. callback
	r2 := w.Do(world.Req{Path: cbPath, Cookie: sid}, plan)
	steps++
	if r2.Panic != "" || r2.Err != "" {
		return fail("error-on-callback", r2.Panic+r2.Err)
	}
	want := "https://app.test" + c.Target
	if r2.OK || !world.IsRedirect(r2.HTTPStatus) {
		return fail("callback-does-not-redirect "+c03Shape(c), fmt.Sprintf("callback answered code=%v http=%d body=%q", r2.Code, r2.HTTPStatus, r2.Body))
	}
	if r2.Location != want {
		return fail("callback-redirects-elsewhere", fmt.Sprintf("Location %q, first requested %q", r2.Location, want))
	}
	if ns := w.SessionFromSetCookie(r2); ns != "" && ns != sid {
		sid = ns // a well-behaved browser would follow a cookie change
	}
	jar(r2)
	// 4. original URL again, then the tail
	adv := append([]int{0}, c.Tail...)
	for i, a := range adv {
		w.Advance(time.Duration(a) * time.Second)
		present := sid
		if !dead.IsZero() && !w.Now().Before(dead) {
			present = "" // the user agent has dropped the cookie
		}
		r := w.Do(world.Req{Path: c.Target, Cookie: present}, plan)
		jar(r)
		steps++
		if r.Panic != "" || r.Err != "" {
			return fail("error-after-login", r.Panic+r.Err)
		}
		if !r.OK {
			return fail(fmt.Sprintf("not-ok-after-login request#%d %s", i, c03Shape(c)),
				fmt.Sprintf("request %d after login (t=+%v) answered code=%v http=%d location=%q", i, w.Now().Sub(t0), r.Code, r.HTTPStatus, r.Location))
		}
		// provider's tokens injected
		var idTok, at string
		for _, tr := range w.IdP.TokenReqs[tokReq0:] {
			if tr.Grant == "authorization_code" && tr.Answered == 200 {
				idTok, at = tr.IDToken, tr.Access
			}
		}
		for _, tr := range w.IdP.TokenReqs[tokReq0:] {
			if tr.Grant == "refresh_token" && tr.Answered == 200 {
				if tr.IDToken != "" {
					idTok = tr.IDToken
				}
				if tr.Access != "" {
					at = tr.Access
				}
			}
		}
		gotID, gotAT := "", ""
		for _, h := range r.Headers {
			if h[0] == w.Cfg.GetIdToken().GetHeader() {
				gotID = strings.TrimPrefix(h[1], w.Cfg.GetIdToken().GetPreamble()+" ")
			}
			if w.Cfg.GetAccessToken() != nil && h[0] == w.Cfg.GetAccessToken().GetHeader() {
				gotAT = h[1]
			}
		}
		if gotID != idTok || (c.Spec.Forward && gotAT != at) {
			return fail("provider-tokens-not-injected", fmt.Sprintf("headers %v", redact(r.Headers)))
		}
	}
	if n := len(w.IdP.AuthzReqs) - authz0; n != 1 {
		return fail("sent-to-provider-again", fmt.Sprintf("%d authorization requests reached the provider", n))
	}
	nx := 0
	for _, tr := range w.IdP.TokenReqs {
		if tr.Grant == "authorization_code" {
			nx++
		}
	}
	if nx -= exch0; nx != 1 {
		return fail("code-exchanges!=1", fmt.Sprintf("%d code exchanges", nx))
	}
	return "", steps
}

// c03ServerFlow: the same browser flow through the assembled service (real loader, real factory, Check, trigger
// rules), provider reached over the in-memory network. Real clock: the tail stays far inside the 3600 s lifetime.
func c03ServerFlow(ans world.Answer, fwd bool, prefix string, rules string, target string) string {
	f := world.FilterSpec{Name: "a", Realm: "idp-a.test", ClientID: "client-a", Secret: "sa", CookiePrefix: prefix, Forward: fwd, Logout: true}
	extra := map[string]any{}
	switch rules {
	case "include-all":
		extra["trigger_rules"] = []any{map[string]any{"included_paths": []any{map[string]any{"prefix": "/"}}}}
	case "exclude-static":
		extra["trigger_rules"] = []any{map[string]any{"excluded_paths": []any{map[string]any{"prefix": "/static"}, map[string]any{"suffix": ".css"}}}}
	}
	sw, err := world.NewSWorld([]world.FilterSpec{f}, extra)
	if err != nil {
		return "server-world: " + err.Error()
	}
	defer sw.Close()
	idp := sw.Realms[f.Realm]
	idp.Mode = ans
	path := "/a" + target
	r1 := sw.Do(world.SReq{Tenant: "a", Path: path})
	if r1.OK || !world.IsRedirect(r1.HTTPStatus) || r1.Location == "" {
		return fmt.Sprintf("no-login-redirect (code=%v http=%d err=%s)", r1.Code, r1.HTTPStatus, r1.Err)
	}
	cn := world.CookieName(prefix)
	sid := ""
	for _, sc := range r1.SetCookies {
		if strings.HasPrefix(sc, cn+"=") {
			sid = strings.SplitN(strings.TrimPrefix(sc, cn+"="), ";", 2)[0]
		}
	}
	idp.RedirectURI = "https://app.test/a/callback"
	cb, _, aerr := idp.Authorize(r1.Location)
	if sid == "" || aerr != nil {
		return fmt.Sprintf("no cookie or provider rejects the authorization request (%v)", aerr)
	}
	idp.Mode = ans
	r2 := sw.Do(world.SReq{Tenant: "a", Path: strings.TrimPrefix(cb, "https://app.test"), Cookies: map[string]string{cn: sid}})
	if !world.IsRedirect(r2.HTTPStatus) || r2.Location != "https://app.test"+path {
		return fmt.Sprintf("callback answered code=%v http=%d location=%q, first requested %q", r2.Code, r2.HTTPStatus, r2.Location, "https://app.test"+path)
	}
	for i := 0; i < 3; i++ {
		r := sw.Do(world.SReq{Tenant: "a", Path: path, Cookies: map[string]string{cn: sid}})
		if !r.OK {
			return fmt.Sprintf("request %d after login answered code=%v http=%d location=%q", i, r.Code, r.HTTPStatus, r.Location)
		}
	}
	if len(idp.AuthzReqs) != 1 {
		return fmt.Sprintf("%d authorization requests", len(idp.AuthzReqs))
	}
	return ""
}

func c03Shape(c c03Case) string {
	return fmt.Sprintf("expires_in=%v refresh=%v forward=%v", !c.Answer.NoExpiresIn, !c.Answer.NoRefresh, c.Spec.Forward)
}

func c03Run(run *ev.Run) {
	run.Rule = "full product of compliant provider answer shapes (expires_in, refresh token, aud string/array, token_type capitalisation, extra members) x filter configurations (forwarding, cookie prefix, logout, scopes, memory/Redis) x originally requested targets, each driven as a redirect-following browser through the real handler and simulated provider, followed by a tail of requests inside token lifetime; plus compliant answers of uncommon size (ID token with 600 groups) and a last pass with log_level all:debug over all configurations; class = (answer shape, config) of completed flows"
	run.Assumptions = []string{
		"handler-level flows (Process on per-check handlers) for the full product; a server-level part drives the assembled service (real loader, store factory, Check, trigger rules) for a subset (all answer shapes in thorough)",
		"token lifetime 60 s virtual; tail advances stay strictly inside it",
	}
	answers := c03Answers()
	specs := c03Specs()
	targets := c03Targets[:2]
	tail := []int{20, 20, 19} // up to one second before the tokens expire
	if run.Tier == "thorough" {
		targets = c03Targets
		tail = []int{10, 20, 20, 9}
	}
	total := len(answers) * len(specs) * len(targets)
	var evals, steps int64
	par.For(total, run.Expired, func(i int) {
		c := c03Case{Answer: answers[i%len(answers)], Spec: specs[(i/len(answers))%len(specs)], Target: targets[i/(len(answers)*len(specs))], Tail: tail}
		res, n := c03Flow(c)
		atomic.AddInt64(&evals, 1)
		atomic.AddInt64(&steps, int64(n))
		if res != "" {
			sig, msg, _ := strings.Cut(res, "\x00")
			run.Violation("C03 "+sig, msg, c)
		} else {
			run.Class(fmt.Sprintf("%s|fwd=%v|store=%s|logout=%v", c03Shape(c), c.Spec.Forward, c.Spec.Store, c.Spec.Logout))
		}
		if i%977 == 0 {
			run.Sample(c)
		}
	})
	if int(evals) != total {
		run.Cap(fmt.Sprintf("%d of %d flows", evals, total))
	}
	// long-lived tokens (1 h): further requests spread over 59 minutes (a store-side expiry that is shorter than the
	// tokens' lifetime would send the browser to the provider again)
	var long int64
	for _, spec := range specs {
		if len(spec.Scopes) != 1 || spec.Logout {
			continue
		}
		spec.TokenLife = 3600
		for _, a := range []world.Answer{answers[0], answers[len(answers)/2], answers[len(answers)-1]} {
			c := c03Case{Answer: a, Spec: spec, Target: targets[0], Tail: []int{240, 480, 900, 900, 1020}}
			res, n := c03Flow(c)
			long++
			steps += int64(n)
			if res != "" {
				sig, msg, _ := strings.Cut(res, "\x00")
				run.Violation("C03 "+sig+" long-lived-tokens", msg, c)
			} else {
				run.Class(fmt.Sprintf("long-lived|%s|store=%s", c03Shape(c), spec.Store))
			}
		}
	}
	evals += long
	// browsers with an earlier life: the flow must be the same whatever this browser's cookie points at
	var hist int64
	for _, before := range []string{"abandoned-login", "abandoned-login-x2", "logged-out"} {
		for _, spec := range specs {
			if len(spec.Scopes) != 1 || (before == "logged-out" && !spec.Logout) {
				continue
			}
			for _, a := range []world.Answer{answers[0], answers[len(answers)/2], answers[len(answers)-1]} {
				for _, tg := range targets {
					c := c03Case{Answer: a, Spec: spec, Target: tg, Tail: tail[:1], Before: before}
					res, n := c03Flow(c)
					hist++
					steps += int64(n)
					if res != "" {
						sig, msg, _ := strings.Cut(res, "\x00")
						run.Violation("C03 "+sig+" before="+before, msg, c)
					} else {
						run.Class(fmt.Sprintf("before=%s|%s|store=%s|logout=%v", before, c03Shape(c), spec.Store, spec.Logout))
					}
				}
			}
		}
	}
	evals += hist
	run.Extra["flows_with_earlier_life"] = hist
	// cookie-name prefixes with characters browsers accept in cookie names but RFC 6265 tokens do not (the option is not
	// validated, so every one of them is an accepted configuration)
	var oddp int64
	for _, prefix := range []string{"team/app", "app:prod", "ops@corp", "a(b)", "x,y", "q?", "sp ace", "Ünï", "a.b_c-d", strings.Repeat("p", 70)} {
		for _, store := range []string{"memory", "redis"} {
			for _, a := range []world.Answer{answers[0], answers[len(answers)-1]} {
				c := c03Case{Answer: a, Spec: world.Spec{Store: store, Forward: true, Logout: true, CookiePrefix: prefix, Scopes: []string{"openid"}}, Target: targets[0], Tail: tail[:1]}
				res, n := c03Flow(c)
				oddp++
				steps += int64(n)
				if res != "" {
					sig, msg, _ := strings.Cut(res, "\x00")
					run.Violation("C03 "+sig+" odd-cookie-prefix", msg, c)
				} else {
					run.Class(fmt.Sprintf("odd-cookie-prefix|%q|store=%s", prefix, store))
				}
			}
		}
	}
	evals += oddp
	run.Extra["flows_with_odd_cookie_prefix"] = oddp
	// session time-outs longer than the run of requests but shorter than (idle) / longer than (absolute) the token
	// lifetime: an active user stays logged in; the browser honours cookie lifetimes
	var tmo int64
	for _, to := range [][2]int{{0, 50}, {3600, 50}, {3600, 0}, {55, 3600}} {
		for _, store := range []string{"memory", "redis"} {
			for _, a := range []world.Answer{answers[0], answers[len(answers)/2]} {
				c := c03Case{Answer: a, Spec: world.Spec{Store: store, Forward: true, Logout: true, Abs: to[0], Idle: to[1], Scopes: []string{"openid"}}, Target: targets[0], Tail: []int{20, 20, 14}}
				res, n := c03Flow(c)
				tmo++
				steps += int64(n)
				if res != "" {
					sig, msg, _ := strings.Cut(res, "\x00")
					run.Violation(fmt.Sprintf("C03 %s timeouts abs=%d idle=%d", sig, to[0], to[1]), msg, c)
				} else {
					run.Class(fmt.Sprintf("timeouts|abs=%d|idle=%d|store=%s", to[0], to[1], store))
				}
			}
		}
	}
	evals += tmo
	run.Extra["flows_with_session_timeouts"] = tmo
	// server level: real loader + factory + Check + trigger rules (serial: one in-memory network per process)
	var srv int64
	srvAnswers := answers
	if run.Tier != "thorough" {
		srvAnswers = nil
		for i, a := range answers {
			if i%6 == 0 {
				srvAnswers = append(srvAnswers, a)
			}
		}
	}
	for _, a := range srvAnswers {
		for _, fwd := range []bool{true, false} {
			for _, rules := range []string{"none", "include-all", "exclude-static"} {
				for _, tg := range []string{"/app?x=1&y=%2F", "/d%20ir/f"} {
					if run.Expired() {
						break
					}
					srv++
					steps += 6
					if msg := c03ServerFlow(a, fwd, "app1", rules, tg); msg != "" {
						run.Violation("C03 server-level-flow-does-not-complete rules="+rules+" "+fmt.Sprintf("expires_in=%v refresh=%v forward=%v", !a.NoExpiresIn, !a.NoRefresh, fwd), msg,
							map[string]any{"level": "server", "answer": a, "forward": fwd, "rules": rules, "target": tg})
					} else {
						run.Class(fmt.Sprintf("server|rules=%s|fwd=%v|expires_in=%v|refresh=%v", rules, fwd, !a.NoExpiresIn, !a.NoRefresh))
					}
				}
			}
		}
	}
	// compliant answers of uncommon size (an ID token with 600 groups: a token answer of about 20 KiB), then every
	// configuration once more with log_level all:debug (set up as cmd/main.go does): what runs only at debug level -
	// the logging round tripper around every provider request, the formatting of logged values - must not change a flow
	big := []world.Answer{{Name: "groups=600", Groups: 600}, {Name: "groups=600,no-refresh,aud_array", Groups: 600, NoRefresh: true, AudArray: true}}
	var bigN, dbg int64
	flowsOf := func(as []world.Answer, tag string, n *int64) {
		for _, spec := range specs {
			for _, a := range as {
				c := c03Case{Answer: a, Spec: spec, Target: targets[0], Tail: tail[:1], Debug: tag == "log=debug"}
				res, k := c03Flow(c)
				*n++
				steps += int64(k)
				if res != "" {
					sig, msg, _ := strings.Cut(res, "\x00")
					run.Violation("C03 "+sig+" "+tag, msg, c)
				} else {
					run.Class(fmt.Sprintf("%s|%s|store=%s", tag, a.Name, spec.Store))
				}
			}
		}
	}
	flowsOf(big, "big-answer", &bigN)
	world.EnableDebugLogging()
	flowsOf(append([]world.Answer{answers[0], answers[len(answers)/2], answers[len(answers)-1]}, big...), "log=debug", &dbg)
	for _, a := range append([]world.Answer{answers[0]}, big...) {
		srv++
		steps += 6
		if msg := c03ServerFlow(a, true, "app1", "include-all", "/app?x=1&y=%2F"); msg != "" {
			run.Violation("C03 server-level-flow-does-not-complete log=debug "+a.Name, msg, map[string]any{"level": "server", "answer": a, "forward": true, "rules": "include-all", "target": "/app?x=1&y=%2F", "log": "debug"})
		} else {
			run.Class("server|log=debug|" + a.Name)
		}
	}
	evals += bigN + dbg
	run.Extra["flows_with_big_answers"] = bigN
	run.Extra["flows_with_debug_logging"] = dbg
	run.Evals, run.States, run.Transitions, run.Traces = evals+srv, evals+srv, steps, evals+srv
	run.Extra["flows"] = total
	run.Extra["server_level_flows"] = srv
}

func c03ReplayFn(path string) int {
	var sv struct {
		Level   string       `json:"level"`
		Answer  world.Answer `json:"answer"`
		Forward bool         `json:"forward"`
		Rules   string       `json:"rules"`
		Target  string       `json:"target"`
	}
	if _, err := loadReplay(path, &sv); err == nil && sv.Level == "server" {
		msg := c03ServerFlow(sv.Answer, sv.Forward, "app1", sv.Rules, sv.Target)
		return replayVerdict("C03", msg != "", msg)
	}
	var c c03Case
	if _, err := loadReplay(path, &c); err != nil {
		fmt.Println(err)
		return 2
	}
	res, _ := c03Flow(c)
	return replayVerdict("C03", res != "", strings.ReplaceAll(res, "\x00", ": "))
}

func init() { Registry["C03"] = Prop{Run: c03Run, Replay: c03ReplayFn} }

package props

import (
	"fmt"
	"strings"

	"github.com/istio-ecosystem/authservice/zzverif/ev"
	"github.com/istio-ecosystem/authservice/zzverif/schedx"
	"github.com/istio-ecosystem/authservice/zzverif/seqx"
	"github.com/istio-ecosystem/authservice/zzverif/vsched"
	"github.com/istio-ecosystem/authservice/zzverif/world"
)

// C04: login-flow binding — state, PKCE and client authentication tie the code to its session.

// rawQueryValues returns every value of name in the query of path (hand-split, form-decoded).
func rawQueryValues(path, name string) []string {
	i := strings.Index(path, "?")
	if i < 0 {
		return nil
	}
	q := path[i+1:]
	if j := strings.Index(q, "#"); j >= 0 {
		q = q[:j]
	}
	var out []string
	for _, kv := range strings.Split(q, "&") {
		k, v, _ := strings.Cut(kv, "=")
		dk, err1 := formDecode(k)
		dv, err2 := formDecode(v)
		if err1 == nil && err2 == nil && dk == name {
			out = append(out, dv)
		}
	}
	return out
}

func contains(xs []string, x string) bool {
	for _, y := range xs {
		if y == x {
			return true
		}
	}
	return false
}

// c04JudgeExchange checks one authorization-code token request against the session named by the cookie.
// stateOf returns the login state ever stored under a session id (from the spy log), challengeOf the challenge
// sent in the authorization redirect that carried a given state.
func c04JudgeExchange(w *world.World, tr *world.TokenReq, sid, path string) (sig, msg string) {
	if tr.Grant != "authorization_code" {
		return "", ""
	}
	var st *world.EnvCall
	for i := range w.Store.Log {
		c := &w.Store.Log[i]
		if c.Method == "SetAuthorizationState" && c.SID == sid && c.State != nil {
			st = c
		}
	}
	states := rawQueryValues(path, "state")
	codes := rawQueryValues(path, "code")
	if sid == "" || st == nil {
		return "exchange-without-session-login-state", fmt.Sprintf("code sent to the token endpoint although no login state was ever issued for the session named by the cookie (%q)", sid)
	}
	if !contains(states, st.State.State) {
		return "exchange-with-foreign-or-near-miss-state", fmt.Sprintf("exchange although the state parameter(s) %q differ from the state %q issued for session %s", states, st.State.State, sid)
	}
	if !contains(codes, tr.Form.Get("code")) {
		return "exchange-with-code-not-in-request", fmt.Sprintf("token request code %q is not a code parameter of the callback %q", tr.Form.Get("code"), codes)
	}
	if tr.Form.Get("code_verifier") != st.State.CodeVerifier {
		return "wrong-pkce-verifier", "code_verifier is not the verifier stored for the session"
	}
	challenge := ""
	for _, ar := range w.IdP.AuthzReqs {
		if ar.State == st.State.State {
			challenge = ar.Challenge
		}
	}
	if challenge != "" && world.S256(tr.Form.Get("code_verifier")) != challenge {
		return "verifier-does-not-match-challenge", "S256(code_verifier) differs from the code_challenge sent in that session's authorization redirect"
	}
	if tr.Form.Get("redirect_uri") != w.Cfg.GetCallbackUri() {
		return "wrong-redirect-uri", fmt.Sprintf("redirect_uri=%q", tr.Form.Get("redirect_uri"))
	}
	if !tr.BasicOK && !tr.FormOK {
		return "missing-or-wrong-client-credentials", "token request without the client's credentials"
	}
	if tr.Form.Get("grant_type") != "authorization_code" {
		return "wrong-grant-type", tr.Form.Get("grant_type")
	}
	return "", ""
}

func authenticatedSessions(w *world.World) int {
	n := 0
	for _, g := range w.Store.Ghost {
		if g.Tokens != nil {
			n++
		}
	}
	return n
}

func c04Monitor(run *ev.Run, spec world.Spec) hMonitor {
	return func(h *hSys, o *hObs, hist []seqx.Event) {
		w := h.W
		if o.Res.Panic != "" {
			run.Incident("panic (C15's subject): " + firstLine(o.Res.Panic))
			return
		}
		if !strings.HasPrefix(o.Req.Path, "/callback") {
			return
		}
		full := c01Replay{Spec: spec, History: append(append([]seqx.Event{}, hist...), o.Event)}
		if strings.HasPrefix(o.Drift, "state:") {
			run.Violation("C04 login-state-changed-behind-the-store-interface", o.Drift+" - the state/nonce/verifier a later exchange will use is no longer the one issued for the session", full)
		}
		// consumed login states: states of logins that completed before this check
		consumed := map[string]bool{}
		for _, tr := range w.IdP.TokenReqs {
			if tr.Grant == "authorization_code" && tr.Answered == 200 && tr.HonestOK {
				// the state of the code's authorization request
				for _, c := range w.IdP.Codes {
					if c.Value == tr.Form.Get("code") {
						consumed[c.Req.State] = true
					}
				}
			}
		}
		for _, tr := range o.TokenReqs {
			for _, c := range w.IdP.Codes {
				if c.Value == tr.Form.Get("code") && tr.Answered == 200 {
					delete(consumed, c.Req.State) // consumed by this very check, not before it
				}
			}
		}
		states := rawQueryValues(o.Req.Path, "state")
		replay := false
		for _, s := range states {
			if consumed[s] {
				replay = true
			}
		}
		nEx := 0
		for _, tr := range o.TokenReqs {
			if tr.Grant == "authorization_code" {
				nEx++
				if sig, msg := c04JudgeExchange(w, tr, o.SID, o.Req.Path); sig != "" {
					run.Violation("C04 "+sig, msg+fmt.Sprintf(" (request %s, cookie %q)", o.Req.Path, o.SID), full)
				}
			}
		}
		cookieKind := "own"
		switch {
		case o.SID == "":
			cookieKind = "none"
		case o.Event.Req.Cookie == "!":
			cookieKind = "attacker"
		case o.PreGhost == nil:
			cookieKind = "stale"
		case o.PreGhost.State == nil || !contains(states, o.PreGhost.State.State):
			cookieKind = "other-session"
		}
		run.Class(fmt.Sprintf("callback|cookie=%s|replay=%v|exchanges=%d|code=%v", cookieKind, replay, nEx, o.Res.Code))
		if replay && nEx > 0 {
			run.Violation("C04 second-exchange-after-successful-login", fmt.Sprintf("callback %s carries a login state that a successful exchange already consumed, yet a token request was sent", o.Req.Path), full)
		}
		if replay {
			before := 0
			if o.PreGhost != nil && o.PreGhost.Tokens != nil {
				before = 1
			}
			after := 0
			if g := w.Store.Ghost[o.SID]; g != nil && g.Tokens != nil {
				after = 1
			}
			if after > before {
				run.Violation("C04 replayed-callback-authenticates", "a replayed callback produced an authenticated session", full)
			}
		}
	}
}

type c04Thread struct {
	Start, Ret int
	Res        world.Result
	SID, Path  string
}

func c04Scenario(name, store string, bound int) schedx.Scenario {
	return schedx.Scenario{Name: name + " store=" + store, Bound: bound, Setup: func() *schedx.Instance {
		w := world.New(world.Spec{Store: store, Forward: true})
		login := func() (string, string) {
			r := w.Do(world.Req{Path: "/"}, world.Plan{})
			sid := w.SessionFromSetCookie(r)
			if _, _, err := w.IdP.Authorize(r.Location); err != nil {
				panic(err)
			}
			return sid, c15CallbackPath(w)
		}
		s1, cb1 := login()
		s2, cb2 := login()
		sx, _ := login()
		var ths []*c04Thread
		switch name {
		case "duplicate-callback":
			ths = []*c04Thread{{SID: s1, Path: cb1}, {SID: s1, Path: cb1}}
		case "two-browsers":
			ths = []*c04Thread{{SID: s1, Path: cb1}, {SID: s2, Path: cb2}}
		case "attacker-swaps-cookie":
			ths = []*c04Thread{{SID: s1, Path: cb1}, {SID: sx, Path: cb1}}
		case "duplicate-plus-other":
			ths = []*c04Thread{{SID: s1, Path: cb1}, {SID: s1, Path: cb1}, {SID: s2, Path: cb2}}
		}
		w.Envs = make([]*world.Env, len(ths))
		bodies := make([]func(), len(ths))
		for i := range ths {
			i := i
			w.Envs[i] = &world.Env{}
			bodies[i] = func() {
				ths[i].Start = vsched.Active().Steps()
				ths[i].Res = w.Do(world.Req{Path: ths[i].Path, Cookie: ths[i].SID}, world.Plan{})
				ths[i].Ret = vsched.Active().Steps()
			}
		}
		return &schedx.Instance{Threads: bodies, Close: w.Close, Finish: func(x *schedx.Exec) (string, []schedx.Violation) {
			var viols []schedx.Violation
			var obs strings.Builder
			for i, t := range ths {
				fmt.Fprintf(&obs, "t%d(code=%v http=%d)@%d-%d ", i, t.Res.Code, t.Res.HTTPStatus, t.Start, t.Ret)
			}
			for _, tr := range w.IdP.TokenReqs {
				if tr.Thread < 0 || tr.Thread >= len(ths) {
					continue
				}
				t := ths[tr.Thread]
				fmt.Fprintf(&obs, "tok(t%d %s)@%d ", tr.Thread, tr.Result, tr.SchedStep)
				if sig, msg := c04JudgeExchange(w, tr, t.SID, t.Path); sig != "" {
					viols = append(viols, schedx.Violation{Signature: sig + " scenario=" + name, Message: msg})
				}
				// a callback that STARTS after a successful one for the same login state COMPLETED must not exchange
				for j, o := range ths {
					if j == tr.Thread || o.Path != t.Path {
						continue
					}
					success := !o.Res.OK && world.IsRedirect(o.Res.HTTPStatus) && o.Res.Location != "" && !strings.HasPrefix(o.Res.Location, "https://idp.test")
					if success && t.Start > o.Ret {
						viols = append(viols, schedx.Violation{Signature: "second-exchange-after-successful-login scenario=" + name,
							Message: fmt.Sprintf("thread %d started (step %d) after thread %d had completed the login (step %d) and still sent a token request", tr.Thread, t.Start, j, o.Ret)})
					}
				}
			}
			// authenticated sessions: only sessions whose own callback was presented with their own state
			for sid, g := range w.Store.Ghost {
				if g.Tokens == nil {
					continue
				}
				okOwner := false
				for _, t := range ths {
					if t.SID == sid {
						for i := range w.Store.Log {
							c := &w.Store.Log[i]
							if c.Method == "SetAuthorizationState" && c.SID == sid && c.State != nil && contains(rawQueryValues(t.Path, "state"), c.State.State) {
								okOwner = true
							}
						}
					}
				}
				if !okOwner {
					viols = append(viols, schedx.Violation{Signature: "session-authenticated-with-foreign-callback scenario=" + name,
						Message: "a session holds tokens although no callback carrying its own state was presented under its cookie"})
				}
			}
			fmt.Fprintf(&obs, "authenticated=%d", authenticatedSessions(w))
			// afterwards (sequentially): once a callback has completed the login, a replay of it must not reach the
			// token endpoint again, whatever the race left behind in the store
			for _, t := range ths {
				success := !t.Res.OK && world.IsRedirect(t.Res.HTTPStatus) && t.Res.Location != "" && !strings.HasPrefix(t.Res.Location, "https://idp.test")
				if !success {
					continue
				}
				n0 := len(w.IdP.TokenReqs)
				w.Env = &world.Env{}
				w.Do(world.Req{Path: t.Path, Cookie: t.SID}, world.Plan{})
				if n := len(w.IdP.TokenReqs) - n0; n > 0 {
					viols = append(viols, schedx.Violation{Signature: "second-exchange-after-successful-login replay-after-race scenario=" + name,
						Message: fmt.Sprintf("after the threads had finished (one of them completed the login), a replay of the callback sent %d more token request(s): the login state outlived the successful exchange", n)})
				}
				fmt.Fprintf(&obs, " replay-exchanges=%d", len(w.IdP.TokenReqs)-n0)
				break
			}
			return obs.String(), viols
		}}
	}}
}

func c04Scenarios(tier string) []schedx.Scenario {
	var scs []schedx.Scenario
	b := 2
	if tier == "thorough" {
		b = -1
	}
	for _, st := range []string{"memory", "redis"} {
		for _, n := range []string{"duplicate-callback", "two-browsers", "attacker-swaps-cookie"} {
			bb := b
			if st == "redis" && b < 0 {
				bb = 3 // every Redis command is a scheduling point: unbounded interleavings are out of reach there
			}
			scs = append(scs, c04Scenario(n, st, bb))
		}
	}
	if tier == "thorough" {
		scs = append(scs, c04Scenario("duplicate-plus-other", "memory", 3))
	}
	return scs
}

func c04Opts(tier string, spec world.Spec) hOpts {
	o := hOpts{Spec: spec, Attacker: true, NearMiss: true, Replays: true, MaxSessions: 3, OddCookies: spec.Store == "memory" && !spec.Discovery}
	if tier == "thorough" {
		o.MaxSessions = 3
		o.Advance = true
	}
	return o
}

func c04Run(run *ev.Run) {
	run.Rule = "histories: BFS over several login flows and an attacker who replays, swaps or forges codes, states and cookies (own/other/stale/attacker-chosen/none cookie x own state, foreign state, near-miss states (case-flipped, truncated, trailing space), duplicated and re-ordered state/code parameters, absent parameters, replays of redeemed callbacks) against a strict RFC 6749/7636 provider that records every token request; schedules: all interleavings (bound 2 quick, unbounded thorough) of duplicate callbacks, two browsers' callbacks and an attacker presenting a victim's callback under its own cookie; oracle: every authorization-code token request is justified by the login state issued to the session named by the cookie (state, verifier/challenge, redirect_uri, client credentials, code), and a consumed login state never leads to a second exchange or an authenticated session; class = (cookie kind, replay, exchanges, verdict)"
	run.Assumptions = []string{
		"with duplicated state/code parameters the oracle accepts an exchange if SOME value equals the issued one (the statement does not say which occurrence counts)",
		"two OVERLAPPING identical callbacks may both reach the token endpoint; only a callback that starts after a successful one completed must not",
		"a failed exchange is not required to consume the login state",
	}
	depth := 5
	if run.Tier == "thorough" {
		depth = 6
	}
	var states, trans, traces int64
	defer debugLogTail(run, 4, func(s world.Spec) seqx.Model { return c04Opts("quick", s).model(c04Monitor(run, s)) },
		world.Spec{Store: "memory", Forward: true}, world.Spec{Store: "redis", Forward: true})
	for _, store := range []string{"memory", "redis"} {
		spec := world.Spec{Store: store, Forward: true}
		m := c04Opts(run.Tier, spec).model(c04Monitor(run, spec))
		m.MaxDepth = depth
		st := seqx.Explore(run, m)
		states += st.States
		trans += st.Transitions
		traces += st.Histories
		if !st.Complete {
			run.Cap(fmt.Sprintf("histories store=%s stopped at depth %d of %d", store, st.DepthDone, depth))
		}
		run.Extra["levels_"+store] = st.LevelSizes
	}
	// endpoints from discovery, plain and with the rich metadata document (a provider that advertises "plain" PKCE,
	// other client authentication methods, ...): the binding must be the same whatever a provider advertises
	for _, spec := range []world.Spec{{Store: "memory", Forward: true, Discovery: true}, {Store: "memory", Forward: true, Discovery: true, RichDiscovery: true}} {
		o := c04Opts(run.Tier, spec)
		o.NearMiss, o.Replays, o.MaxSessions = false, true, 2
		m := o.model(c04Monitor(run, spec))
		m.MaxDepth = 4
		st := seqx.Explore(run, m)
		states += st.States
		trans += st.Transitions
		traces += st.Histories
		if !st.Complete {
			run.Cap(fmt.Sprintf("discovery histories (rich=%v) stopped at depth %d", spec.RichDiscovery, st.DepthDone))
		}
	}
	for _, sc := range c04Scenarios(run.Tier) {
		cs := schedx.Explore(run, "C04", sc)
		traces += cs.Schedules
		trans += cs.Points
		states += int64(len(cs.Distinct))
		run.Extra["schedules "+sc.Name] = cs.Schedules
		if !cs.Complete {
			run.Cap("scenario not completed: " + sc.Name)
		}
	}
	run.States, run.Transitions, run.Traces, run.Evals = states, trans, traces, trans
}

func c04ReplayFn(path string) int {
	var rp schedx.Replay
	if _, err := loadReplay(path, &rp); err == nil && rp.Scenario != "" {
		for _, sc := range c04Scenarios("thorough") {
			if sc.Name == rp.Scenario {
				obs, v, err := schedx.ReplayOnce(sc, rp.Choices)
				if err != nil {
					fmt.Println(err)
					return 2
				}
				return replayVerdict("C04", len(v) > 0, obs)
			}
		}
		return 2
	}
	var sr c01Replay
	if _, err := loadReplay(path, &sr); err != nil {
		fmt.Println(err)
		return 2
	}
	run := ev.NewRun("C04", "replay", "/nonexistent")
	m := c04Opts("thorough", sr.Spec).model(c04Monitor(run, sr.Spec))
	s := seqx.Replay(m, sr.History)
	s.Close()
	return replayVerdict("C04", run.Violations() > 0, "")
}

func init() { Registry["C04"] = Prop{Run: c04Run, Replay: c04ReplayFn} }

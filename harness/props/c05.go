package props

import (
	"fmt"
	"strings"

	"github.com/istio-ecosystem/authservice/zzverif/ev"
	"github.com/istio-ecosystem/authservice/zzverif/schedx"
	"github.com/istio-ecosystem/authservice/zzverif/seqx"
	"github.com/istio-ecosystem/authservice/zzverif/world"
)

// C05: session id renewed at every login redirect; cookie host-locked and protected.

type parsedCookie struct {
	Name, Value string
	Attrs       map[string]string // lower-cased attribute name -> value ("" for flags)
	Dup         []string
}

// parseSetCookie parses a Set-Cookie value per RFC 6265 §4.1 (name=value *( "; " av )).
func parseSetCookie(v string) (parsedCookie, error) {
	pc := parsedCookie{Attrs: map[string]string{}}
	parts := strings.Split(v, ";")
	nv := strings.TrimSpace(parts[0])
	i := strings.Index(nv, "=")
	if i <= 0 {
		return pc, fmt.Errorf("no name=value pair in %q", v)
	}
	pc.Name, pc.Value = nv[:i], nv[i+1:]
	for _, a := range parts[1:] {
		a = strings.TrimSpace(a)
		if a == "" {
			continue
		}
		k, val, _ := strings.Cut(a, "=")
		k = strings.ToLower(strings.TrimSpace(k))
		if _, dup := pc.Attrs[k]; dup {
			pc.Dup = append(pc.Dup, k)
		}
		pc.Attrs[k] = strings.TrimSpace(val)
	}
	return pc, nil
}

func c05CookieProblems(pc parsedCookie, prefix string) []string {
	var bad []string
	want := "__Host-authservice-session-id-cookie"
	if prefix != "" {
		want = "__Host-" + prefix + "-authservice-session-id-cookie"
	}
	if !strings.HasPrefix(pc.Name, "__Host-") {
		bad = append(bad, "name-without-__Host-prefix")
	} else if pc.Name != want {
		bad = append(bad, "name-not-derived-from-configured-prefix")
	}
	if p, ok := pc.Attrs["path"]; !ok || p != "/" {
		bad = append(bad, "path-not-/")
	}
	if _, ok := pc.Attrs["domain"]; ok {
		bad = append(bad, "domain-attribute-present")
	}
	if _, ok := pc.Attrs["secure"]; !ok {
		bad = append(bad, "not-secure")
	}
	if _, ok := pc.Attrs["httponly"]; !ok {
		bad = append(bad, "not-httponly")
	}
	if ss := strings.ToLower(pc.Attrs["samesite"]); ss != "lax" && ss != "strict" {
		bad = append(bad, "samesite-not-restricted")
	}
	return bad
}

func c05Monitor(run *ev.Run, spec world.Spec) hMonitor {
	viol := func(sig, msg string, hist []seqx.Event, e seqx.Event) {
		full := append(append([]seqx.Event{}, hist...), e)
		run.Violation("C05 "+sig, msg, c01Replay{Spec: spec, History: full})
	}
	return func(h *hSys, o *hObs, hist []seqx.Event) {
		w := h.W
		if o.Res.Panic != "" {
			run.Incident("panic (C15's subject): " + firstLine(o.Res.Panic))
			return
		}
		kind := "app"
		if strings.HasPrefix(o.Req.Path, "/callback") {
			kind = "callback"
		} else if strings.HasPrefix(o.Req.Path, world.LogoutPath) {
			kind = "logout"
		}
		presented := "none"
		switch {
		case o.SID == "":
		case o.Event.Req.Cookie == "!":
			presented = "attacker-chosen"
		case o.PreGhost != nil && o.PreGhost.Tokens != nil:
			presented = "authenticated"
		case o.PreGhost != nil && o.PreGhost.State != nil:
			presented = "pending"
		default:
			presented = "stale"
		}
		// every Set-Cookie is parsed and judged
		for _, sc := range o.Res.SetCookies {
			pc, err := parseSetCookie(sc)
			if err != nil {
				viol("malformed-set-cookie", err.Error(), hist, o.Event)
				continue
			}
			for _, b := range c05CookieProblems(pc, spec.CookiePrefix) {
				viol("cookie-attribute "+b, fmt.Sprintf("Set-Cookie %q: %s", sc, b), hist, o.Event)
			}
		}
		newSID := w.SessionFromSetCookie(o.Res)
		if o.AuthzLoc != "" {
			run.Class(fmt.Sprintf("login-redirect|%s|presented=%s", kind, presented))
			switch {
			case newSID == "":
				viol("login-redirect-without-new-cookie", "redirect to the provider without a session cookie", hist, o.Event)
			case newSID == o.SID:
				viol("session-id-reused presented="+presented, "the login redirect re-issued the presented session id", hist, o.Event)
			case h.Presented[newSID]:
				viol("session-id-previously-presented", "the new session id equals one a client presented earlier", hist, o.Event)
			case o.IssuedBefore[newSID]:
				viol("session-id-issued-before", "the new session id was issued before", hist, o.Event)
			}
			if o.SID != "" && o.SID != newSID && w.HasAnything(o.SID) {
				viol("old-session-not-destroyed presented="+presented, fmt.Sprintf("after the login redirect the store still holds data under the presented id (%s)", presented), hist, o.Event)
			}
		}
		// tokens / login state only under ids the service itself issued
		for _, c := range o.Calls {
			if (c.Method == "SetTokenResponse" || c.Method == "SetAuthorizationState") && c.Fault != "before" {
				// tokens: only under ids that were handed out in a Set-Cookie. Login state: under an id the service
				// generated itself (when the store write fails after taking effect the answer is an error without
				// cookie, so the id is stored although no client ever learns it - harmless and not what the property
				// forbids)
				generated := false
				for _, g := range w.Gen.SIDs {
					if g == c.SID {
						generated = true
					}
				}
				if c.Method == "SetAuthorizationState" && generated {
					continue
				}
				if !o.IssuedBefore[c.SID] && c.SID != newSID {
					viol("stored-under-unissued-id method="+c.Method+" presented="+presented,
						fmt.Sprintf("%s under an id the service never put into a Set-Cookie (presented: %s)", c.Method, presented), hist, o.Event)
				}
			}
		}
		// logout expires the cookie
		if kind == "logout" && o.Res.Err == "" && !o.Res.OK && world.IsRedirect(o.Res.HTTPStatus) {
			run.Class("logout|presented=" + presented)
			found := false
			for _, sc := range o.Res.SetCookies {
				pc, err := parseSetCookie(sc)
				if err == nil && pc.Name == world.CookieName(spec.CookiePrefix) {
					if ma, ok := pc.Attrs["max-age"]; ok && (ma == "0" || strings.HasPrefix(ma, "-")) {
						found = true
					}
					if _, ok := pc.Attrs["expires"]; ok && strings.Contains(pc.Attrs["expires"], "1970") {
						found = true
					}
				}
			}
			if !found {
				viol("logout-does-not-expire-cookie", fmt.Sprintf("logout redirect Set-Cookie=%v", o.Res.SetCookies), hist, o.Event)
			}
		}
	}
}

func c05Opts(tier string, spec world.Spec) hOpts {
	o := hOpts{Spec: spec, Logout: true, Attacker: true, Advance: true, MaxSessions: 4,
		GoodIdP: []world.Answer{world.Honest, {Name: "honest-no-refresh", NoRefresh: true}}}
	if tier == "thorough" {
		o.MaxSessions = 5
		o.Faults, o.MaxDev, o.FaultModes = true, 1, []string{"before", "after"}
	}
	return o
}

func c05Run(run *ev.Run) {
	run.Rule = "BFS over histories in which clients present absent/stale/attacker-chosen/pending/authenticated(fresh or expired) session ids on app, callback and logout paths, with the REAL random id generator, for cookie prefixes none/'a'/'my-app_1.x', memory and Redis; monitors: new id at every login redirect differs from every id presented or issued so far, nothing left under the presented id, tokens/login state only under issued ids, every Set-Cookie parsed (RFC 6265) and judged; class = (answer kind, path kind, kind of id presented)"
	run.Assumptions = []string{
		"cookie prefixes are RFC 6265 tokens",
		"'destroyed' is judged on the store's content after the check (equivalent refactorings are not flagged)",
		"thorough additionally injects single store faults (before/after)",
	}
	depth := 6
	if run.Tier == "thorough" {
		depth = 7
	}
	var total seqx.Stats
	specs := []world.Spec{
		{Store: "memory", Forward: true, Logout: true, RealGen: true},
		{Store: "redis", Forward: true, Logout: true, RealGen: true, CookiePrefix: "my-app_1.x"},
		{Store: "memory", Logout: true, RealGen: true, CookiePrefix: "a"},
		{Store: "memory", Forward: true, Logout: true, RealGen: true, CookiePrefix: "odd"},
	}
	defer debugLogTail(run, 5, func(s world.Spec) seqx.Model { return c05Opts("quick", s).model(c05Monitor(run, s)) }, specs[0], specs[1])
	for i, spec := range specs {
		o5 := c05Opts(run.Tier, spec)
		m := o5.model(c05Monitor(run, spec))
		m.MaxDepth = depth
		if run.Tier == "thorough" && i > 0 {
			m.MaxDepth = depth - 1 // depth 7 for the first configuration, 6 for the others (time budget)
		}
		if i == len(specs)-1 {
			// the session cookie inside sloppy Cookie headers (trailing ';', pair without value, junk, a comma-smuggled
			// second pair): two sessions, two levels less
			o5.OddCookies, o5.MaxSessions = true, 2
			m = o5.model(c05Monitor(run, spec))
			m.MaxDepth = depth - 2
		}
		if run.Tier == "thorough" {
			m.CheckMerges = -1 // depth 7 fills the time budget; the merge check runs in the quick tier
		}
		st := seqx.Explore(run, m)
		total.States += st.States
		total.Transitions += st.Transitions
		total.Histories += st.Histories
		total.Replayed += st.Replayed
		if !st.Complete {
			run.Cap(fmt.Sprintf("spec %d: search stopped at depth %d of %d", i, st.DepthDone, depth))
		}
		run.Extra[fmt.Sprintf("levels_spec%d", i)] = st.LevelSizes
	}
	// volume: one long-lived store serving thousands of visitors - what holds for the first removal holds for the
	// 1024th and the 2048th (every visitor: redirect without cookie, the pending id presented again on another path
	// must be replaced and nothing may be left under it; every 64th visitor logs in, uses the session and logs out)
	visitors := 2600
	if run.Tier == "thorough" {
		visitors = 9000
	}
	for _, store := range []string{"memory", "redis"} {
		w := world.New(world.Spec{Store: store, Forward: true, Logout: true, RealGen: true})
		bad := 0
		for v := 0; v < visitors && bad == 0 && !run.Expired(); v++ {
			r1 := w.Do(world.Req{Path: fmt.Sprintf("/v%d", v)}, world.Plan{})
			s1 := w.SessionFromSetCookie(r1)
			r2 := w.Do(world.Req{Path: fmt.Sprintf("/v%d/again", v), Cookie: s1}, world.Plan{})
			s2 := w.SessionFromSetCookie(r2)
			switch {
			case s1 == "" || s2 == "" || s1 == s2:
				run.Violation("C05 session-id-reused presented=pending volume", fmt.Sprintf("visitor %d: ids %q then %q", v, s1, s2), map[string]any{"volume": true, "visitor": v, "store": store})
				bad++
			case w.HasAnything(s1):
				run.Violation("C05 old-session-not-destroyed presented=pending volume", fmt.Sprintf("visitor %d (store %s): after the second login redirect the store still holds data under the first id", v, store),
					map[string]any{"volume": true, "visitor": v, "store": store})
				bad++
			}
			if v%64 == 63 && bad == 0 {
				if cb, _, err := w.IdP.Authorize(r2.Location); err == nil {
					w.Do(world.Req{Path: strings.TrimPrefix(cb, "https://app.test"), Cookie: s2}, world.Plan{})
					if r := w.Do(world.Req{Path: "/app", Cookie: s2}, world.Plan{}); !r.OK {
						run.Violation("C05 login-does-not-complete volume", fmt.Sprintf("visitor %d: login completed but the next request is answered %v", v, r.Code), map[string]any{"volume": true, "visitor": v, "store": store})
						bad++
					}
					w.Do(world.Req{Path: world.LogoutPath, Cookie: s2}, world.Plan{})
					if w.HasAnything(s2) {
						run.Violation("C05 session-survives-logout volume", fmt.Sprintf("visitor %d (store %s): the store still holds the session after logout", v, store), map[string]any{"volume": true, "visitor": v, "store": store})
						bad++
					}
				}
			}
		}
		w.Close()
		run.Class(fmt.Sprintf("volume|store=%s|visitors=%d", store, visitors))
	}
	run.Extra["volume_visitors"] = visitors
	// concurrent checks on one session against a provider that rotates refresh tokens
	var scheds int64
	scs := []schedx.Scenario{c05ConcScenario("memory", 2, 2), c05ConcScenario("redis", 2, 2)}
	if run.Tier == "thorough" {
		scs = []schedx.Scenario{c05ConcScenario("memory", 2, -1), c05ConcScenario("redis", 2, 3), c05ConcScenario("memory", 3, 2)}
	}
	for _, sc := range scs {
		cs := schedx.Explore(run, "C05", sc)
		scheds += cs.Schedules
		run.Class(fmt.Sprintf("concurrent|%s|outcomes=%d", sc.Name, len(cs.Distinct)))
		if !cs.Complete {
			run.Cap("scenario not completed: " + sc.Name)
		}
	}
	run.Extra["schedules"] = scheds
	run.States, run.Transitions, run.Traces, run.Evals = total.States, total.Transitions+scheds, total.Histories+scheds, total.Transitions+scheds
	run.Extra["replayed_events"] = total.Replayed
	run.Extra["depth"] = depth
}

// c05ConcScenario: two or three checks on ONE session (expired tokens, refresh token; the provider rotates refresh
// tokens, so only one refresh can win). A check that answers with a login redirect must have removed what was stored
// under the id it was presented with - by its own RemoveSession call, effective, before it stores the new login state.
func c05ConcScenario(store string, n, bound int) schedx.Scenario {
	return schedx.Scenario{Name: fmt.Sprintf("%d checks on one expired session store=%s", n, store), Bound: bound, PanicIsViolation: true,
		Setup: func() *schedx.Instance {
			w := world.New(world.Spec{Store: store, Forward: true, Logout: true})
			sid := c15Prepare(w, "expired")
			w.Envs = make([]*world.Env, n)
			res := make([]world.Result, n)
			bodies := make([]func(), n)
			for i := 0; i < n; i++ {
				i := i
				w.Envs[i] = &world.Env{}
				bodies[i] = func() { res[i] = w.Do(world.Req{Path: "/", Cookie: sid}, world.Plan{}) }
			}
			return &schedx.Instance{Threads: bodies, Close: w.Close, Finish: func(x *schedx.Exec) (string, []schedx.Violation) {
				var viols []schedx.Violation
				var obs strings.Builder
				for i, r := range res {
					redirect := !r.OK && world.IsRedirect(r.HTTPStatus) && strings.HasPrefix(r.Location, w.Cfg.GetAuthorizationUri())
					newSID := w.SessionFromSetCookie(r)
					fmt.Fprintf(&obs, "t%d(ok=%v redirect=%v) ", i, r.OK, redirect)
					if !redirect {
						continue
					}
					if newSID == "" || newSID == sid {
						viols = append(viols, schedx.Violation{Signature: "login-redirect-without-new-id concurrent", Message: fmt.Sprintf("thread %d was sent to the provider without a new session id", i)})
						continue
					}
					removed := false
					for _, c := range w.Envs[i].Calls {
						if c.Method == "RemoveSession" && c.SID == sid && !c.Failed {
							removed = true
						}
						if c.Method == "SetAuthorizationState" && c.SID == newSID && !removed {
							viols = append(viols, schedx.Violation{Signature: "old-session-not-destroyed presented=authenticated concurrent",
								Message: fmt.Sprintf("thread %d was sent to the provider with a new session id but never removed what was stored under the id it presented (calls: %v)", i, summarizeCalls(w.Envs[i].Calls))})
							break
						}
					}
				}
				return obs.String(), viols
			}}
		}}
}

func c05ReplayFn(path string) int {
	var srp schedx.Replay
	if _, err := loadReplay(path, &srp); err == nil && srp.Scenario != "" {
		for _, st := range []string{"memory", "redis"} {
			for _, n := range []int{2, 3} {
				if sc := c05ConcScenario(st, n, 2); sc.Name == srp.Scenario {
					obs, v, err := schedx.ReplayOnce(sc, srp.Choices)
					if err != nil {
						fmt.Println(err)
						return 2
					}
					return replayVerdict("C05", len(v) > 0, obs)
				}
			}
		}
		return 2
	}
	var rp c01Replay
	if _, err := loadReplay(path, &rp); err != nil {
		fmt.Println(err)
		return 2
	}
	run := ev.NewRun("C05", "replay", "/nonexistent")
	m := c05Opts("thorough", rp.Spec).model(c05Monitor(run, rp.Spec))
	s := seqx.Replay(m, rp.History)
	s.Close()
	return replayVerdict("C05", run.Violations() > 0, "")
}

func init() { Registry["C05"] = Prop{Run: c05Run, Replay: c05ReplayFn} }

package props

import (
	"context"
	crand "crypto/rand"
	"encoding/json"
	"io"
	"crypto/md5"
	"crypto/sha1"
	"crypto/sha256"
	"encoding/base64"
	"encoding/binary"
	"encoding/hex"
	"fmt"
	mrand "math/rand"
	mrand2 "math/rand/v2"
	"net/url"
	"os"
	"strings"
	"sync"
	"sync/atomic"
	"time"

	envoy "github.com/envoyproxy/go-control-plane/envoy/service/auth/v3"

	configv1 "github.com/istio-ecosystem/authservice/config/gen/go/v1"
	"github.com/istio-ecosystem/authservice/internal/oidc"
	"github.com/istio-ecosystem/authservice/internal/server"
	"github.com/istio-ecosystem/authservice/zzverif/ev"
	"github.com/istio-ecosystem/authservice/zzverif/par"
	"github.com/istio-ecosystem/authservice/zzverif/schedx"
	"github.com/istio-ecosystem/authservice/zzverif/vsched"
)

// C06: session ids, state and nonce are unpredictable — exhaustive search by a bounded attacker.

type c06Login struct {
	T0, T1    int64 // UnixNano bracket around the Check call
	SID       string
	State     string
	Nonce     string
	Challenge string
}

const c06Charset = "abcdefghijklmnopqrstuvwxyzABCDEFGHIJKLMNOPQRSTUVWXYZ0123456789"

func c06Collect(n int) ([]c06Login, error) {
	var cnt int64
	return c06CollectWith(n, countingStore{n: &cnt}, false, "")
}

// labelledEntropy is an entropy source the harness controls: a chosen prefix followed by a stream that depends on the label.
type labelledEntropy struct {
	buf   []byte
	label string
	ctr   uint64
}

func (e *labelledEntropy) Read(p []byte) (int, error) {
	for len(e.buf) < len(p) {
		h := sha256.Sum256([]byte(fmt.Sprintf("%s/%d", e.label, e.ctr)))
		e.ctr++
		e.buf = append(e.buf, h[:]...)
	}
	n := copy(p, e.buf)
	e.buf = e.buf[n:]
	return n, nil
}

// c06Congruence: attack on generators that feed ONE word of real entropy into math/rand: rand.Seed reduces its
// argument modulo 2^31-1, so two entropy streams whose first word is congruent modulo 2^31-1 (under some reading of
// the first eight bytes) and that differ everywhere else would yield the same identifiers. Returns candidates tried.
func c06Congruence(run *ev.Run) int64 {
	const p = int64(1<<31 - 1)
	orig := crand.Reader
	defer func() { crand.Reader = orig }()
	login := func(prefix []byte, label string) (c06Login, error) {
		crand.Reader = &labelledEntropy{buf: append([]byte{}, prefix...), label: label}
		var cnt int64
		ls, err := c06CollectWith(1, countingStore{n: &cnt}, false, "")
		crand.Reader = orig
		if err != nil {
			return c06Login{}, err
		}
		return ls[0], nil
	}
	base := []byte{0x12, 0x34, 0x56, 0x78, 0x1a, 0xbc, 0xde, 0xf0}
	var n int64
	type reading struct {
		name string
		dec  func([]byte) int64
		enc  func(int64) []byte
	}
	be := func(b []byte) uint64 { return binary.BigEndian.Uint64(b) }
	le := func(b []byte) uint64 { return binary.LittleEndian.Uint64(b) }
	mk := func(order binary.ByteOrder, shift bool) func(int64) []byte {
		return func(v int64) []byte {
			u := uint64(v)
			if shift {
				u <<= 1
			}
			b := make([]byte, 8)
			order.PutUint64(b, u)
			return b
		}
	}
	for _, r := range []reading{
		{"big-endian>>1", func(b []byte) int64 { return int64(be(b) >> 1) }, mk(binary.BigEndian, true)},
		{"little-endian>>1", func(b []byte) int64 { return int64(le(b) >> 1) }, mk(binary.LittleEndian, true)},
		{"big-endian&mask63", func(b []byte) int64 { return int64(be(b) & (1<<63 - 1)) }, mk(binary.BigEndian, false)},
		{"little-endian&mask63", func(b []byte) int64 { return int64(le(b) & (1<<63 - 1)) }, mk(binary.LittleEndian, false)},
	} {
		w1 := r.dec(base)
		for _, k := range []int64{1, 1 << 20} {
			w2 := w1 + k*p
			if w2 < 0 {
				continue
			}
			a, errA := login(r.enc(w1), "stream-a")
			b, errB := login(r.enc(w2), "stream-b")
			n += 2
			if errA != nil || errB != nil {
				run.HarnessError(fmt.Sprintf("C06 congruence attack: %v %v", errA, errB))
				return n
			}
			for kind, pair := range map[string][2]string{"session-id": {a.SID, b.SID}, "state": {a.State, b.State}, "nonce": {a.Nonce, b.Nonce}} {
				if pair[0] == pair[1] {
					run.Violation("C06 predictable target="+kind+" attack=entropy-congruent-mod-2^31-1",
						fmt.Sprintf("two entropy streams that agree only in (first word read as %s) modulo 2^31-1 and differ in every other byte yield the same %s: the identifiers are outputs of a math/rand stream seeded with one word, i.e. one of 2^31-1 sequences", r.name, kind),
						map[string]any{"reading": r.name, "k": k})
				}
			}
		}
	}
	run.Class("entropy-congruence")
	return n
}

// c06CollectChain: one browser that never completes a login: every request presents the cookie of the previous
// login redirect (a real memory store holds the pending logins), so each redirect is issued "on top of" an earlier one.
func c06CollectChain(n int) ([]c06Login, error) {
	clock := oidc.Clock{}
	return c06CollectWith(n, oidc.NewMemoryStore(&clock, 0, 0), true, "")
}

func c06CollectWith(n int, store oidc.SessionStore, chain bool, cookiePrefix string) ([]c06Login, error) {
	oc := c08OIDC()
	oc.CookieNamePrefix = cookiePrefix
	cfg := &configv1.Config{Chains: []*configv1.FilterChain{{Name: "c", Filters: []*configv1.Filter{{Type: &configv1.Filter_Oidc{Oidc: oc}}}}}}
	f := server.NewExtAuthZFilter(cfg, c08Pool, nil, countingFactory{store})
	var out []c06Login
	cookie := ""
	for i := 0; i < n; i++ {
		hdrs := map[string]string{}
		if chain && cookie != "" {
			hdrs["cookie"] = cookie
		}
		req := &envoy.CheckRequest{Attributes: &envoy.AttributeContext{Request: &envoy.AttributeContext_Request{
			Http: &envoy.AttributeContext_HttpRequest{Id: "1", Method: "GET", Scheme: "https", Host: "app.test", Path: fmt.Sprintf("/x%d", i%3), Headers: hdrs}}}}
		t0 := time.Now().UnixNano()
		resp, err := f.Check(context.Background(), req)
		t1 := time.Now().UnixNano()
		if err != nil {
			return nil, err
		}
		l := c06Login{T0: t0, T1: t1}
		for _, h := range resp.GetDeniedResponse().GetHeaders() {
			switch strings.ToLower(h.GetHeader().GetKey()) {
			case "location":
				u, err := url.Parse(h.GetHeader().GetValue())
				if err != nil {
					return nil, err
				}
				q := u.Query()
				l.State, l.Nonce, l.Challenge = q.Get("state"), q.Get("nonce"), q.Get("code_challenge")
			case "set-cookie":
				v := h.GetHeader().GetValue()
				if i := strings.Index(v, "="); i > 0 {
					l.SID = strings.SplitN(v[i+1:], ";", 2)[0]
					cookie = v[:i] + "=" + l.SID
				}
			}
		}
		if l.SID == "" || l.State == "" || l.Nonce == "" {
			return nil, fmt.Errorf("login redirect %d lacks cookie/state/nonce", i)
		}
		out = append(out, l)
		// space the logins a little so that brackets do not overlap
		time.Sleep(200 * time.Microsecond)
	}
	return out, nil
}

// stream renders the first n draws of r over the 62-character set exactly as the generator's loop does.
func c06Stream(r *mrand.Rand, n int, buf []byte) string {
	for i := 0; i < n; i++ {
		buf[i] = c06Charset[r.Intn(len(c06Charset))]
	}
	return string(buf[:n])
}

type c06Hit struct {
	Attack string
	Detail string
	Target string
}

// seedAttack tries one math/rand seed: if the public state occurs in the stream, the cookie is searched there.
func c06TrySeed(src mrand.Source, r *mrand.Rand, seed int64, l *c06Login, buf []byte) *c06Hit {
	src.Seed(seed)
	s := c06Stream(r, 256, buf)
	if strings.Contains(s, l.State) || strings.Contains(s, l.Nonce) {
		if strings.Contains(s, l.SID) {
			return &c06Hit{Attack: "math/rand-seed", Target: "session-id", Detail: fmt.Sprintf("seed %d (offset %+d ns from the start of the request bracket) reproduces the public state/nonce and the session cookie", seed, seed-l.T0)}
		}
		return &c06Hit{Attack: "math/rand-seed", Target: "state-or-nonce", Detail: fmt.Sprintf("seed %d reproduces the public state/nonce", seed)}
	}
	if strings.Contains(s, l.SID) {
		return &c06Hit{Attack: "math/rand-seed", Target: "session-id", Detail: fmt.Sprintf("seed %d reproduces the session cookie", seed)}
	}
	return nil
}

func c06PCGStream(r *mrand2.Rand, n int, buf []byte) string {
	for i := 0; i < n; i++ {
		buf[i] = c06Charset[r.IntN(len(c06Charset))]
	}
	return string(buf[:n])
}

func c06WindowSeeds(l *c06Login) []int64 {
	seen := map[int64]bool{}
	var out []int64
	add := func(s int64) {
		if !seen[s] {
			seen[s] = true
			out = append(out, s)
		}
	}
	for s := l.T0; s <= l.T1; s++ { // every nanosecond of the bracket
		add(s)
	}
	lo, hi := l.T0-int64(time.Millisecond), l.T1+int64(time.Millisecond)
	for s := lo / 1000; s <= hi/1000; s++ { // microseconds, widened by 1 ms
		add(s)
		add(s * 1000)
	}
	for s := lo/1e6 - 2; s <= hi/1e6+2; s++ { // milliseconds
		add(s)
		add(s * 1e6)
	}
	for s := lo/1e9 - 2; s <= hi/1e9+2; s++ { // seconds
		add(s)
		add(s * 1e9)
	}
	for _, s := range []int64{0, 1, 2, 42, int64(os.Getpid()), int64(os.Getppid())} {
		add(s)
	}
	return out
}

// derivations: strings an attacker can compute from public values.
func c06Unary(b string) []string {
	rev := func(s string) string {
		r := []byte(s)
		for i, j := 0, len(r)-1; i < j; i, j = i+1, j-1 {
			r[i], r[j] = r[j], r[i]
		}
		return string(r)
	}
	h256 := sha256.Sum256([]byte(b))
	h1 := sha1.Sum([]byte(b))
	h5 := md5.Sum([]byte(b))
	out := []string{b, rev(b), strings.ToUpper(b), strings.ToLower(b), hex.EncodeToString([]byte(b)),
		base64.StdEncoding.EncodeToString([]byte(b)), base64.RawURLEncoding.EncodeToString([]byte(b)),
		hex.EncodeToString(h256[:]), base64.StdEncoding.EncodeToString(h256[:]), base64.RawURLEncoding.EncodeToString(h256[:]),
		hex.EncodeToString(h1[:]), base64.StdEncoding.EncodeToString(h1[:]), hex.EncodeToString(h5[:]), base64.StdEncoding.EncodeToString(h5[:])}
	if d, err := base64.RawURLEncoding.DecodeString(b); err == nil {
		out = append(out, hex.EncodeToString(d))
	}
	return out
}

func c06Derive(base []string) map[string]string {
	out := map[string]string{}
	d1 := map[string]string{}
	for i, b := range base {
		for j, v := range c06Unary(b) {
			d1[v] = fmt.Sprintf("f%d(v%d)", j, i)
		}
	}
	for v, how := range d1 {
		out[v] = how
		for j, w := range c06Unary(v) {
			if _, ok := out[w]; !ok {
				out[w] = fmt.Sprintf("f%d(%s)", j, how)
			}
		}
	}
	for i, a := range base {
		for j, b := range base {
			c := a + b
			for k, v := range c06Unary(c) {
				if _, ok := out[v]; !ok {
					out[v] = fmt.Sprintf("f%d(v%d+v%d)", k, i, j)
				}
			}
		}
	}
	return out
}

func c06Related(secret string, cands map[string]string) (string, bool) {
	for c, how := range cands {
		if len(c) < 16 {
			continue
		}
		if strings.Contains(c, secret) || strings.Contains(secret, c) {
			return how, true
		}
		// any 24-character window of the secret inside the candidate
		if len(secret) >= 24 {
			for i := 0; i+24 <= len(secret); i += 8 {
				if strings.Contains(c, secret[i:i+24]) {
					return how + " (24-character window)", true
				}
			}
		}
	}
	return "", false
}

func c06Run(run *ev.Run) {
	run.Rule = "n real login redirects through ExtAuthZFilter.Check (real per-check generator construction); for each, an attacker who sees state, nonce, code_challenge, a wall-clock bracket around the request and the identifiers of the neighbouring logins enumerates EVERY candidate of a finite menu: math/rand seeds (every ns of the bracket; us/ms/s granularity widened by 1 ms; constants and pid; thorough: the whole 2^31-1 seed space for the first login), math/rand/v2 PCG seeded from the bracket, depth-2 derivations (reverse, case, hex, base64, SHA-256/SHA-1/MD5, concatenations) of the public values and of neighbouring identifiers, equality/shared structure with neighbours; evaluations = candidates tried; a class is (attack, login)"
	run.Assumptions = []string{
		"a finite attacker menu cannot prove cryptographic unpredictability; it decides predictability by the listed attacks only",
		"the statement's 'statically, for every code path' clause (call-graph analysis) is a different family and not claimed",
	}
	n := 12
	if run.Tier == "thorough" {
		n = 48
	}
	congr := c06Congruence(run)
	run.Extra["entropy_congruence_logins"] = congr
	logins, err := c06Collect(n)
	if err != nil {
		run.HarnessError("C06 collect: " + err.Error())
		return
	}
	// ... and as many issued to one browser that presents the cookie of its previous, never completed login
	chain, err := c06CollectChain(n / 2)
	if err != nil {
		run.HarnessError("C06 collect (chain): " + err.Error())
		return
	}
	logins = append(logins, chain...)
	run.Extra["logins_on_top_of_a_pending_login"] = len(chain)
	// ... and pairs of logins at filters whose (public) cookie-name prefix is unusually long: what is public must not
	// take the place of what is random
	for _, pl := range []int{24, 40, 53, 61, 64, 66, 100} {
		var cnt int64
		two, err := c06CollectWith(2, countingStore{n: &cnt}, false, strings.Repeat("p", pl))
		if err != nil {
			run.HarnessError("C06 collect (long prefix): " + err.Error())
			return
		}
		logins = append(logins, two...)
	}
	var cands int64
	report := func(i int, h *c06Hit) {
		run.Violation(fmt.Sprintf("C06 predictable target=%s attack=%s", h.Target, h.Attack), fmt.Sprintf("login %d: %s", i, h.Detail),
			map[string]any{"login": logins[i], "attack": h.Attack, "detail": h.Detail})
	}
	// shape and distinctness
	seen := map[string]string{}
	for i, l := range logins {
		for kind, v := range map[string]string{"session-id": l.SID, "state": l.State, "nonce": l.Nonce} {
			// the statement fixes no length; anything below 20 characters of a 62-64 symbol alphabet (< ~120 bits) is
			// treated as guessable
			wantLen := 20
			okc := len(v) >= wantLen
			for _, ch := range v {
				if !strings.ContainsRune(c06Charset+"-_.~", ch) {
					okc = false
				}
			}
			if !okc {
				run.Violation("C06 malformed-identifier kind="+kind, fmt.Sprintf("login %d: %s %q is shorter than %d or outside the URL-safe alphabet", i, kind, v, wantLen), l)
			}
			if prev, dup := seen[v]; dup {
				run.Violation("C06 identifier-repeated", fmt.Sprintf("login %d: %s equals %s", i, kind, prev), l)
			}
			seen[v] = fmt.Sprintf("%s of login %d", kind, i)
		}
	}
	// attacks 1 and 3: seeds from the time bracket
	var mu sync.Mutex
	par.For(len(logins), run.Expired, func(i int) {
		l := &logins[i]
		src := mrand.NewSource(1)
		r := mrand.New(src)
		buf := make([]byte, 256)
		seeds := c06WindowSeeds(l)
		for _, s := range seeds {
			if h := c06TrySeed(src, r, s, l, buf); h != nil {
				mu.Lock()
				report(i, h)
				mu.Unlock()
				break
			}
		}
		atomic.AddInt64(&cands, int64(len(seeds)))
		// PCG
		np := 0
		for s := l.T0; s <= l.T1; s++ {
			for _, pair := range [][2]uint64{{uint64(s), 0}, {uint64(s), uint64(s)}, {0, uint64(s)}} {
				pr := mrand2.New(mrand2.NewPCG(pair[0], pair[1]))
				st := c06PCGStream(pr, 160, buf)
				np++
				if strings.Contains(st, l.State) || strings.Contains(st, l.SID) || strings.Contains(st, l.Nonce) {
					mu.Lock()
					report(i, &c06Hit{Attack: "math/rand/v2-pcg-seed", Target: "session-id", Detail: fmt.Sprintf("PCG seed (%d,%d) reproduces issued values", pair[0], pair[1])})
					mu.Unlock()
				}
			}
		}
		atomic.AddInt64(&cands, int64(np))
		run.Class(fmt.Sprintf("seed-window|login=%d", i))
	})
	// attacks 4 and 5: derivations
	for i, l := range logins {
		base := []string{l.State, l.Nonce, l.Challenge}
		own := c06Derive(base)
		atomic.AddInt64(&cands, int64(len(own)))
		if how, ok := c06Related(l.SID, own); ok {
			report(i, &c06Hit{Attack: "derivation-from-same-login", Target: "session-id", Detail: "session id is related to " + how + " of (state, nonce, challenge)"})
		}
		var nb []string
		for j := i - 32; j <= i+32; j++ {
			if j < 0 || j >= len(logins) || j == i {
				continue
			}
			nb = append(nb, logins[j].SID, logins[j].State, logins[j].Nonce)
		}
		if len(nb) > 24 {
			nb = nb[len(nb)/2-12 : len(nb)/2+12]
		}
		nd := c06Derive(nb)
		atomic.AddInt64(&cands, int64(len(nd)))
		for kind, v := range map[string]string{"session-id": l.SID, "state": l.State, "nonce": l.Nonce} {
			if how, ok := c06Related(v, nd); ok {
				report(i, &c06Hit{Attack: "derivation-from-neighbouring-logins", Target: kind, Detail: kind + " is related to " + how + " of neighbouring identifiers"})
			}
		}
		// shared structure with the neighbour (counters, timestamps, fixed prefixes)
		if i > 0 {
			for kind, pair := range map[string][2]string{"session-id": {logins[i-1].SID, l.SID}, "state": {logins[i-1].State, l.State}, "nonce": {logins[i-1].Nonce, l.Nonce}} {
				same := 0
				for k := 0; k < len(pair[0]) && k < len(pair[1]); k++ {
					if pair[0][k] == pair[1][k] {
						same++
					}
				}
				atomic.AddInt64(&cands, 1)
				if m := min(len(pair[0]), len(pair[1])); m > 0 && same*4 >= m {
					report(i, &c06Hit{Attack: "shared-structure-with-previous", Target: kind, Detail: fmt.Sprintf("%d of %d positions equal those of the previous login's %s", same, m, kind)})
				}
			}
		}
		run.Class(fmt.Sprintf("derivations|login=%d", i))
	}
	// one generator instance serving many logins (what a handler cache or a package-level generator would do): the
	// identifiers of 4*n consecutive logins drawn from ONE NewRandomGenerator() must not repeat or share structure
	{
		g := oidc.NewRandomGenerator()
		nl := 4 * n
		if nl < 64 {
			nl = 64
		}
		seenG := map[string]int{}
		var prev [3]string
		for k := 0; k < nl; k++ {
			vals := [3]string{g.GenerateSessionID(), g.GenerateNonce(), g.GenerateState()}
			_ = g.GenerateCodeVerifier()
			for vi, v := range vals {
				kind := []string{"session-id", "nonce", "state"}[vi]
				atomic.AddInt64(&cands, 1)
				if j, dup := seenG[v]; dup {
					run.Violation("C06 predictable target="+kind+" attack=replayed-by-one-generator", fmt.Sprintf("one generator instance: %s of login %d equals an identifier issued at login %d", kind, k, j), map[string]any{"login": k, "earlier": j})
				}
				seenG[v] = k
				// any 16-character window shared with an earlier identifier of the same generator
				if k > 0 {
					same := 0
					for x := 0; x < len(v) && x < len(prev[vi]); x++ {
						if v[x] == prev[vi][x] {
							same++
						}
					}
					if len(v) > 0 && same*4 >= len(v) {
						run.Violation("C06 predictable target="+kind+" attack=shared-structure-with-previous", fmt.Sprintf("one generator instance: %d of %d positions of login %d's %s equal the previous one", same, len(v), k, kind), nil)
					}
				}
				prev[vi] = v
			}
		}
		win := map[string]int{}
		for v, k := range seenG {
			for x := 0; x+16 <= len(v); x += 4 {
				w := v[x : x+16]
				if j, ok := win[w]; ok && j != k {
					run.Violation("C06 predictable target=identifier attack=window-replayed-by-one-generator", fmt.Sprintf("a 16-character window of an identifier of login %d re-appears in login %d", k, j), nil)
				}
				win[w] = k
			}
		}
		run.Class("one-generator-many-logins")
	}
	// process start-up: the first concurrent login redirects of fresh processes, every schedule twice
	{
		n := c06StartupExplore(run, 2)
		if run.Tier == "thorough" {
			n += c06StartupExplore(run, 3)
		}
		atomic.AddInt64(&cands, n)
		run.Extra["fresh_process_executions"] = n
		run.Class("startup-burst|fresh-processes")
	}
	// concurrent logins: all interleavings (at every lock operation of the repository's code, pre-emption bound 2/3) of
	// two and three threads that each obtain a login redirect through Check must yield pairwise different identifiers
	for _, nt := range []int{2, 3} {
		bound := 2
		if run.Tier == "thorough" {
			bound = 3
		}
		sc := c06ConcScenario(nt, bound)
		cs := schedx.Explore(run, "C06", sc)
		atomic.AddInt64(&cands, cs.Schedules)
		run.Extra["schedules "+sc.Name] = cs.Schedules
		run.Class(fmt.Sprintf("concurrent-logins|threads=%d|schedules=%d", nt, cs.Schedules))
		if !cs.Complete {
			run.Cap("concurrent scenario not completed: " + sc.Name)
		}
	}
	// attack 2 (thorough): the whole math/rand seed space against the first login
	if run.Tier == "thorough" && run.Violations() == 0 {
		l := &logins[0]
		const total = int64(1<<31 - 1)
		const chunk = int64(1 << 20)
		nChunks := int((total + chunk - 1) / chunk)
		var done int64
		fast := newC06Fast()
		var pairs [256][256]bool
		for _, t := range []string{l.State, l.SID, l.Nonce} {
			for i := 0; i+1 < len(t); i++ {
				pairs[t[i]][t[i+1]] = true
			}
		}
		run.Extra["full_seed_sweep_engine"] = map[bool]string{true: "LCG jump-ahead (cross-checked against math/rand)", false: "math/rand Seed (fast path unavailable)"}[fast.ok]
		par.For(nChunks, run.Expired, func(ci int) {
			src := mrand.NewSource(1)
			r := mrand.New(src)
			buf := make([]byte, 256)
			lo := int64(ci) * chunk
			hi := lo + chunk
			if hi > total {
				hi = total
			}
			for s := lo; s < hi; s++ {
				var st string
				if fast.ok && !fast.mayMatch(s, 160, &pairs) {
					continue
				}
				if fast.ok && fast.stream(s, buf[:160]) {
					st = string(buf[:160])
				} else {
					src.Seed(s)
					st = c06Stream(r, 160, buf)
				}
				if strings.Contains(st, l.State) || strings.Contains(st, l.SID) || strings.Contains(st, l.Nonce) {
					mu.Lock()
					report(0, &c06Hit{Attack: "math/rand-full-seed-space", Target: "session-id", Detail: fmt.Sprintf("seed %d reproduces the issued values", s)})
					mu.Unlock()
				}
			}
			atomic.AddInt64(&done, hi-lo)
		})
		atomic.AddInt64(&cands, done)
		run.Extra["full_seed_space_covered"] = fmt.Sprintf("%d of %d seeds (%.1f%%)", done, total, 100*float64(done)/float64(total))
		if done < total {
			run.Cap("full math/rand seed sweep cut by the deadline")
		}
	}
	run.Sample(map[string]any{"login": 0, "bracket_ns": logins[0].T1 - logins[0].T0, "window_seeds": len(c06WindowSeeds(&logins[0])), "public": []string{logins[0].State, logins[0].Nonce, logins[0].Challenge}})
	run.Evals, run.States, run.Transitions, run.Traces = cands, int64(len(logins)), cands, int64(len(logins))
}

// entropyReader makes every read of crypto/rand a scheduling point (the first few per thread), so that the explorer
// can stop one thread inside its first entropy read while another one draws.
type entropyReader struct {
	orig  io.Reader
	count map[int]int
}

func (e *entropyReader) Read(b []byte) (int, error) {
	if s := vsched.Active(); s != nil {
		t := s.Running()
		if e.count[t] < 3 {
			e.count[t]++
			s.Point("entropy", "crypto/rand")
		}
	}
	return e.orig.Read(b)
}

// c06StartupScenario: the first two/three login redirects of a FRESH PROCESS, concurrently; the schedule is explored
// with entropy reads as scheduling points. The observation is the list of issued identifiers: the parent runs every
// schedule in two fresh processes and an identifier that comes out the same in both was not drawn from entropy.
func c06StartupScenario(nt int) schedx.Scenario {
	return schedx.Scenario{Name: fmt.Sprintf("start-up burst of %d login redirects", nt), Prop: "C06", FreshProcess: true, Bound: 1, SyncPoints: true,
		PanicIsViolation: true, DeadlockIsViolation: true, OnceOnly: true,
		Setup: func() *schedx.Instance {
			er := &entropyReader{orig: crand.Reader, count: map[int]int{}}
			crand.Reader = er
			var cnt int64
			cfg := &configv1.Config{Chains: []*configv1.FilterChain{{Name: "c", Filters: []*configv1.Filter{{Type: &configv1.Filter_Oidc{Oidc: c08OIDC()}}}}}}
			f := server.NewExtAuthZFilter(cfg, c08Pool, nil, countingFactory{countingStore{n: &cnt}})
			vals := make([][]string, nt)
			bodies := make([]func(), nt)
			for i := 0; i < nt; i++ {
				i := i
				bodies[i] = func() {
					req := &envoy.CheckRequest{Attributes: &envoy.AttributeContext{Request: &envoy.AttributeContext_Request{
						Http: &envoy.AttributeContext_HttpRequest{Id: "1", Method: "GET", Scheme: "https", Host: "app.test", Path: "/x", Headers: map[string]string{}}}}}
					resp, err := f.Check(context.Background(), req)
					if err != nil {
						return
					}
					for _, h := range resp.GetDeniedResponse().GetHeaders() {
						switch strings.ToLower(h.GetHeader().GetKey()) {
						case "location":
							if u, err := url.Parse(h.GetHeader().GetValue()); err == nil {
								vals[i] = append(vals[i], "state="+u.Query().Get("state"), "nonce="+u.Query().Get("nonce"))
							}
						case "set-cookie":
							v := h.GetHeader().GetValue()
							if j := strings.Index(v, "="); j > 0 {
								vals[i] = append(vals[i], "sid="+strings.SplitN(v[j+1:], ";", 2)[0])
							}
						}
					}
				}
			}
			return &schedx.Instance{Threads: bodies, Close: func() { crand.Reader = er.orig }, Finish: func(x *schedx.Exec) (string, []schedx.Violation) {
				var all []string
				for i, vs := range vals {
					for _, v := range vs {
						all = append(all, fmt.Sprintf("t%d:%s", i, v))
					}
				}
				return strings.Join(all, " "), nil
			}}
		}}
}

// c06StartupExplore runs every schedule (pre-emption bound 1, pre-emptions within the first c06Window scheduling
// points of the pre-empted thread: the subject is the start-up window) of the start-up burst in two fresh processes each.
const c06Window = 24

func c06StartupExplore(run *ev.Run, nt int) int64 {
	sc := c06StartupScenario(nt)
	var n int64
	var mu sync.Mutex
	seen := map[string]bool{}
	// one returns the alternatives that branch off this execution
	one := func(prefix []int) [][]int {
		if run.Expired() || run.Violations() > 5 {
			return nil
		}
		xa, oa, _, ea := schedx.RunOnce(sc, prefix)
		_, ob, _, eb := schedx.RunOnce(sc, prefix)
		atomic.AddInt64(&n, 2)
		if ea != nil || eb != nil {
			run.HarnessError(fmt.Sprintf("C06 start-up scenario: %v %v", ea, eb))
			return nil
		}
		va, vb := strings.Fields(oa), strings.Fields(ob)
		inB := map[string]bool{}
		for _, v := range vb {
			inB[v[strings.Index(v, ":")+1:]] = true
		}
		mu.Lock()
		for _, v := range va {
			id := v[strings.Index(v, ":")+1:]
			if inB[id] && !seen[id] {
				seen[id] = true
				what := id[:strings.Index(id, "=")]
				run.Violation("C06 predictable target="+what+" attack=same-identifier-in-two-fresh-processes",
					fmt.Sprintf("two fresh processes running the same schedule of %d concurrent first login redirects issued the identical %s: it is a constant of the program, not drawn from entropy | schedule: %s",
						nt, what, schedx.TraceString(xa.Sched)), schedx.Replay{Scenario: sc.Name, Choices: xa.Choices})
			}
		}
		mu.Unlock()
		var alts [][]int
		pre := 0
		perThread := map[int]int{}
		for i, p := range xa.Sched.Trace {
			perThread[p.Thread]++
			if i >= len(prefix) && len(p.Enabled) > 1 {
				cost := pre
				if !p.Free {
					cost++
				}
				if cost <= sc.Bound && (p.Free || perThread[p.Thread] <= c06Window) {
					for alt := 1; alt < len(p.Enabled); alt++ {
						np := make([]int, i+1)
						copy(np, xa.Choices[:i])
						np[i] = alt
						alts = append(alts, np)
					}
				}
			}
			if p.Chosen != 0 && !p.Free {
				pre++
			}
		}
		return alts
	}
	level := [][]int{nil}
	for len(level) > 0 {
		next := make([][][]int, len(level))
		par.For(len(level), run.Expired, func(i int) { next[i] = one(level[i]) })
		level = nil
		for _, a := range next {
			level = append(level, a...)
		}
	}
	return n
}

func c06SchedChild(name, prefixJSON string) {
	var prefix []int
	_ = json.Unmarshal([]byte(prefixJSON), &prefix)
	for _, nt := range []int{2, 3} {
		if sc := c06StartupScenario(nt); sc.Name == name {
			schedx.RunChild(sc, prefix)
			return
		}
	}
	fmt.Println("unknown scenario", name)
}

// c06ConcScenario: nt threads each send several cookie-less requests through ONE ExtAuthZFilter; every identifier
// issued in the execution must be unique.
func c06ConcScenario(nt, bound int) schedx.Scenario {
	return schedx.Scenario{Name: fmt.Sprintf("%d concurrent login redirects", nt), Bound: bound, SyncPoints: true, PanicIsViolation: true, DeadlockIsViolation: true,
		// a duplicate identifier inside one execution is a fact about the real code whatever process-wide generator
		// state earlier executions left behind, so it is reported without the replay confirmation
		OnceOnly: true,
		Setup: func() *schedx.Instance {
			var cnt int64
			cfg := &configv1.Config{Chains: []*configv1.FilterChain{{Name: "c", Filters: []*configv1.Filter{{Type: &configv1.Filter_Oidc{Oidc: c08OIDC()}}}}}}
			f := server.NewExtAuthZFilter(cfg, c08Pool, nil, countingFactory{countingStore{n: &cnt}})
			vals := make([][]string, nt)
			bodies := make([]func(), nt)
			for i := 0; i < nt; i++ {
				i := i
				bodies[i] = func() {
					for k := 0; k < 2; k++ {
						req := &envoy.CheckRequest{Attributes: &envoy.AttributeContext{Request: &envoy.AttributeContext_Request{
							Http: &envoy.AttributeContext_HttpRequest{Id: "1", Method: "GET", Scheme: "https", Host: "app.test", Path: "/x", Headers: map[string]string{}}}}}
						resp, err := f.Check(context.Background(), req)
						if err != nil {
							continue
						}
						for _, h := range resp.GetDeniedResponse().GetHeaders() {
							switch strings.ToLower(h.GetHeader().GetKey()) {
							case "location":
								if u, err := url.Parse(h.GetHeader().GetValue()); err == nil {
									vals[i] = append(vals[i], u.Query().Get("state"), u.Query().Get("nonce"))
								}
							case "set-cookie":
								v := h.GetHeader().GetValue()
								if j := strings.Index(v, "="); j > 0 {
									vals[i] = append(vals[i], strings.SplitN(v[j+1:], ";", 2)[0])
								}
							}
						}
					}
				}
			}
			return &schedx.Instance{Threads: bodies, Finish: func(x *schedx.Exec) (string, []schedx.Violation) {
				seen := map[string]int{}
				var viols []schedx.Violation
				n := 0
				for i, vs := range vals {
					for _, v := range vs {
						n++
						if j, dup := seen[v]; dup {
							viols = append(viols, schedx.Violation{Signature: "predictable target=identifier attack=replayed-to-concurrent-login",
								Message: fmt.Sprintf("an identifier issued to thread %d was also issued to thread %d in the same execution", i, j)})
						}
						seen[v] = i
					}
				}
				// the observation must be schedule-independent apart from the (random) values themselves
				return fmt.Sprintf("identifiers=%d distinct=%d", n, len(seen)), viols
			}}
		}}
}

func c06ReplayFn(path string) int {
	// the issued values are random: a replay re-runs the attacker search on fresh logins
	run := ev.NewRun("C06", "replay", "/nonexistent")
	run.Tier = "quick"
	c06Run(run)
	return replayVerdict("C06", run.Violations() > 0, "")
}

func init() { Registry["C06"] = Prop{Run: c06Run, Replay: c06ReplayFn, SchedChild: c06SchedChild} }

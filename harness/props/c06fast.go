package props

import (
	mrand "math/rand"
	"os"
	"path/filepath"
	"regexp"
	"runtime"
	"strconv"
	"strings"
)

// Fast evaluation of math/rand's seeded generator for the full seed sweep of C06.
//
// rngSource.Seed(s) fills vec[i] = (x[21+3i]<<40 ^ x[22+3i]<<20 ^ x[23+3i]) ^ rngCooked[i] where x[j] = s*48271^j mod
// (2^31-1), and the k-th output (k < 273) is vec[333-k] + vec[606-k]. With the multipliers 48271^j precomputed
// (LCG jump-ahead) one output costs six modular multiplications instead of a 1841-step seeding loop. The
// additive table rngCooked is not exported: it is read from GOROOT/src/math/rand/rng.go at run time; when that is
// not possible the sweep falls back to the standard library (slower). The fast path is cross-checked against the
// standard library on start-up.

const c06P = (1 << 31) - 1

type c06Fast struct {
	cooked [607]int64
	mult   [607 * 3]uint64 // mult[3i+d] = 48271^(21+3i+d) mod p
	ok     bool
}

func mulmod(a, b uint64) uint64 {
	x := a * b // < 2^62
	x = (x & c06P) + (x >> 31)
	x = (x & c06P) + (x >> 31)
	if x >= c06P {
		x -= c06P
	}
	return x
}

func newC06Fast() *c06Fast {
	f := &c06Fast{}
	goroot := runtime.GOROOT()
	if g := os.Getenv("VERIF_GOROOT"); g != "" {
		goroot = g
	}
	b, err := os.ReadFile(filepath.Join(goroot, "src", "math", "rand", "rng.go"))
	if err != nil {
		return f
	}
	src := string(b)
	i := strings.Index(src, "rngCooked [rngLen]int64 = [...]int64{")
	if i < 0 {
		return f
	}
	body := src[i:]
	j := strings.Index(body, "\n}")
	if j < 0 {
		return f
	}
	nums := regexp.MustCompile(`-?0x[0-9a-fA-F]+|-?\b[0-9]+\b`).FindAllString(body[strings.Index(body, "{"):j], -1)
	if len(nums) != 607 {
		return f
	}
	for k, n := range nums {
		v, err := strconv.ParseInt(n, 0, 64)
		if err != nil {
			return f
		}
		f.cooked[k] = v
	}
	m := uint64(1)
	for j := 1; j <= 21+3*606+2; j++ {
		m = mulmod(m, 48271)
		if j >= 21 {
			f.mult[j-21] = m
		}
	}
	f.ok = true
	// cross-check against the standard library
	for _, seed := range []int64{1, 2, 42, 89482311, 1790968741024366338, c06P - 1, 123456789012} {
		r := mrand.New(mrand.NewSource(seed))
		var buf [64]byte
		if !f.stream(seed, buf[:]) {
			continue
		}
		for k := 0; k < 64; k++ {
			if buf[k] != c06Charset[r.Intn(62)] {
				f.ok = false
				return f
			}
		}
	}
	return f
}

// char returns the k-th character of the stream (k < 273) and whether rejection sampling would have retried.
func (f *c06Fast) char(x0 uint64, k int) (byte, bool) {
	vec := func(i int) int64 {
		a := mulmod(x0, f.mult[3*i])
		b := mulmod(x0, f.mult[3*i+1])
		c := mulmod(x0, f.mult[3*i+2])
		return (int64(a)<<40 ^ int64(b)<<20 ^ int64(c)) ^ f.cooked[i]
	}
	const maxOK = int32((1 << 31) - 1 - (1<<31)%62)
	v := uint64(vec(333-k) + vec(606-k))
	i31 := int32((v & (1<<63 - 1)) >> 32)
	if i31 > maxOK {
		return 0, false
	}
	return c06Charset[i31%62], true
}

func c06X0(seed int64) uint64 {
	s := seed % c06P
	if s < 0 {
		s += c06P
	}
	if s == 0 {
		s = 89482311
	}
	return uint64(s)
}

// mayMatch is the exact pre-filter of the sweep: if one of the targets (each at least 32 characters) occurs in
// the first n characters of the stream, then some 16-aligned block of 16 characters lies inside that occurrence
// and is therefore a substring of the target. pairs[a][b] says whether characters a,b are adjacent somewhere in a
// target. A seed is rejected as soon as every aligned block is refuted by its first two characters; anything not
// refuted (or any retry of the rejection sampling) returns true and is decided by the full comparison. One retry
// (probability 1e-8 per draw) earlier in the stream is covered by also testing the block shifted by one output; two
// retries within 160 draws (probability ~1e-12 per seed) are not.
func (f *c06Fast) mayMatch(seed int64, n int, pairs *[256][256]bool) bool {
	x0 := c06X0(seed)
	for b := 0; b+16 <= n; b += 16 {
		c0, ok0 := f.char(x0, b)
		if !ok0 {
			return true
		}
		c1, ok1 := f.char(x0, b+1)
		if !ok1 {
			return true
		}
		if pairs[c0][c1] {
			return true
		}
		// one rejection-sampling retry somewhere before this block shifts the stream by one output
		c2, ok2 := f.char(x0, b+2)
		if !ok2 || pairs[c1][c2] {
			return true
		}
	}
	return false
}

// stream writes the first len(out) characters the generator's loop would draw for this seed; false when a
// rejection-sampling retry would occur (caller falls back to the standard library for that seed).
func (f *c06Fast) stream(seed int64, out []byte) bool {
	s := seed % c06P
	if s < 0 {
		s += c06P
	}
	if s == 0 {
		s = 89482311
	}
	x0 := uint64(s)
	vec := func(i int) int64 {
		a := mulmod(x0, f.mult[3*i])
		b := mulmod(x0, f.mult[3*i+1])
		c := mulmod(x0, f.mult[3*i+2])
		return (int64(a)<<40 ^ int64(b)<<20 ^ int64(c)) ^ f.cooked[i]
	}
	const maxOK = int32((1 << 31) - 1 - (1<<31)%62)
	for k := range out {
		v := uint64(vec(333-k) + vec(606-k))
		i31 := int32((v & (1<<63 - 1)) >> 32)
		if i31 > maxOK {
			return false
		}
		out[k] = c06Charset[i31%62]
	}
	return true
}

package props

import (
	"context"
	"fmt"
	"regexp"
	"strings"
	"sync/atomic"

	envoy "github.com/envoyproxy/go-control-plane/envoy/service/auth/v3"
	"google.golang.org/grpc/codes"

	configv1 "github.com/istio-ecosystem/authservice/config/gen/go/v1"
	mockv1 "github.com/istio-ecosystem/authservice/config/gen/go/v1/mock"
	"github.com/istio-ecosystem/authservice/internal/server"
	"github.com/istio-ecosystem/authservice/zzverif/ev"
	"github.com/istio-ecosystem/authservice/zzverif/par"
)

// C07: trigger rules decide on the path alone.

type c07Pat struct {
	Kind string `json:"kind"` // exact prefix suffix regex unset
	Text string `json:"text"`
}

type c07Rule struct {
	Nil bool     `json:"nil,omitempty"`
	Exc []c07Pat `json:"exc,omitempty"`
	Inc []c07Pat `json:"inc,omitempty"`
}

type c07Case struct {
	Rules  []c07Rule `json:"rules"`
	Path   string    `json:"path"`
	Tail   string    `json:"tail"`
	Expect bool      `json:"expect_triggered"`
	Got    bool      `json:"got_triggered"`
	Base   bool      `json:"got_triggered_without_tail"`
}

func (p c07Pat) proto() *configv1.StringMatch {
	switch p.Kind {
	case "exact":
		return &configv1.StringMatch{MatchType: &configv1.StringMatch_Exact{Exact: p.Text}}
	case "prefix":
		return &configv1.StringMatch{MatchType: &configv1.StringMatch_Prefix{Prefix: p.Text}}
	case "suffix":
		return &configv1.StringMatch{MatchType: &configv1.StringMatch_Suffix{Suffix: p.Text}}
	case "regex":
		return &configv1.StringMatch{MatchType: &configv1.StringMatch_Regex{Regex: p.Text}}
	}
	return &configv1.StringMatch{}
}

func (r c07Rule) proto() *configv1.TriggerRule {
	if r.Nil {
		return nil
	}
	tr := &configv1.TriggerRule{}
	for _, p := range r.Exc {
		tr.ExcludedPaths = append(tr.ExcludedPaths, p.proto())
	}
	for _, p := range r.Inc {
		tr.IncludedPaths = append(tr.IncludedPaths, p.proto())
	}
	return tr
}

// reference evaluator, written from the statement
func c07RefMatch(p c07Pat, path string) bool {
	switch p.Kind {
	case "exact":
		return p.Text == path
	case "prefix":
		return strings.HasPrefix(path, p.Text)
	case "suffix":
		return strings.HasSuffix(path, p.Text)
	case "regex":
		re, err := regexp.Compile(p.Text)
		if err != nil {
			return false
		}
		return re.MatchString(path)
	}
	return false
}

func c07RefTriggered(rules []c07Rule, target string) bool {
	path := target
	if i := strings.IndexAny(path, "?#"); i >= 0 {
		path = path[:i]
	}
	if len(rules) == 0 || path == "" {
		return true
	}
	for _, r := range rules {
		if r.Nil {
			continue
		}
		excluded := false
		for _, p := range r.Exc {
			if c07RefMatch(p, path) {
				excluded = true
			}
		}
		if excluded {
			continue
		}
		if len(r.Inc) == 0 {
			return true
		}
		for _, p := range r.Inc {
			if c07RefMatch(p, path) {
				return true
			}
		}
	}
	return false
}

func c07Filter(rules []c07Rule) *server.ExtAuthZFilter {
	cfg := &configv1.Config{
		Chains: []*configv1.FilterChain{{Name: "deny", Filters: []*configv1.Filter{
			{Type: &configv1.Filter_Mock{Mock: &mockv1.MockConfig{Allow: false}}}}}},
	}
	for _, r := range rules {
		cfg.TriggerRules = append(cfg.TriggerRules, r.proto())
	}
	return server.NewExtAuthZFilter(cfg, nil, nil, nil)
}

func c07Req(target string) *envoy.CheckRequest {
	return &envoy.CheckRequest{Attributes: &envoy.AttributeContext{Request: &envoy.AttributeContext_Request{
		Http: &envoy.AttributeContext_HttpRequest{Id: "1", Method: "GET", Scheme: "https", Host: "app.test", Path: target,
			Headers: map[string]string{}},
	}}}
}

// c07ImplAttrs: the same request with the proxy also filling the separate query / fragment attributes of the
// CheckRequest (the path attribute still holds the full target, as Envoy sends it).
func c07ImplAttrs(f *server.ExtAuthZFilter, target string) (bool, error) {
	req := c07Req(target)
	rest := target
	if i := strings.IndexAny(rest, "?#"); i >= 0 {
		rest = rest[i:]
		if rest[0] == '?' {
			q := rest[1:]
			if j := strings.Index(q, "#"); j >= 0 {
				req.Attributes.Request.Http.Fragment = q[j+1:]
				q = q[:j]
			}
			req.Attributes.Request.Http.Query = q
		} else {
			req.Attributes.Request.Http.Fragment = rest[1:]
		}
	}
	resp, err := f.Check(context.Background(), req)
	if err != nil {
		return false, err
	}
	return codes.Code(resp.GetStatus().GetCode()) != codes.OK, nil
}

// triggered as observed on the implementation: OK <=> not triggered (single always-deny mock filter).
func c07Impl(f *server.ExtAuthZFilter, target string) (bool, error) {
	resp, err := f.Check(context.Background(), c07Req(target))
	if err != nil {
		return false, err
	}
	return codes.Code(resp.GetStatus().GetCode()) != codes.OK, nil
}

var (
	c07Paths = []string{"", "/", "/a", "/a/b", "/b", "/a.css", "/b.css"}
	c07Tails = []string{"", "?", "#", "?x=1", "?.css", "?p=/a", "?/a/b", "#/a", "#.css", "?x#.css", "#x?.css", "?^/a$",
		"##", "#x#.css", "#.css#x", "#x#/a", "??", "?x?.css", "?x?/a", "#x#y#/a/b", "?x#y?z#.css", "%23.css", "%3F/a", ";.css", "/../a", "//a",
		"?u=https://h/a/b", "?u=http://h/b.css", "#https://h/a", "?://h/a/b", "?x=1://y/.css", "://h/a", ":/a"}
)

func c07Patterns() []c07Pat {
	texts := []string{"/", "/a", "/a/b", ".css", "a", "^/a$", "/a.*", "(", ""}
	var ps []c07Pat
	for _, k := range []string{"exact", "prefix", "suffix", "regex"} {
		for _, t := range texts {
			ps = append(ps, c07Pat{k, t})
		}
	}
	ps = append(ps, c07Pat{"unset", ""})
	return ps
}

func c07Core(n int) []c07Pat {
	all := []c07Pat{{"exact", "/a"}, {"prefix", "/a"}, {"suffix", ".css"}, {"regex", "^/a$"}, {"prefix", "/"}, {"suffix", "/a/b"},
		{"regex", "/a.*"}, {"exact", "/"}, {"suffix", "a"}, {"regex", "("}}
	return all[:n]
}

// subsets of size <= k (ordered by construction, no permutations: list order inside a rule is irrelevant to
// the documented semantics, and the implementation's loops are order-insensitive up to short-circuit)
func c07Subsets(ps []c07Pat, k int) [][]c07Pat {
	out := [][]c07Pat{nil}
	for i := range ps {
		out = append(out, []c07Pat{ps[i]})
	}
	if k >= 2 {
		for i := range ps {
			for j := range ps {
				if i != j {
					out = append(out, []c07Pat{ps[i], ps[j]})
				}
			}
		}
	}
	return out
}

func c07RulesFrom(ps []c07Pat, ke, ki int) []c07Rule {
	var rules []c07Rule
	for _, e := range c07Subsets(ps, ke) {
		for _, i := range c07Subsets(ps, ki) {
			rules = append(rules, c07Rule{Exc: e, Inc: i})
		}
	}
	rules = append(rules, c07Rule{Nil: true})
	return rules
}

func c07Kinds(rules []c07Rule) string {
	seen := map[string]bool{}
	for _, r := range rules {
		for _, p := range r.Exc {
			seen["exc-"+p.Kind] = true
		}
		for _, p := range r.Inc {
			seen["inc-"+p.Kind] = true
		}
	}
	var ks []string
	for _, k := range []string{"exc-exact", "exc-prefix", "exc-suffix", "exc-regex", "exc-unset", "inc-exact", "inc-prefix", "inc-suffix", "inc-regex", "inc-unset"} {
		if seen[k] {
			ks = append(ks, k)
		}
	}
	return strings.Join(ks, ",")
}

// c07CheckSet evaluates one rule set on every target; returns number of evaluations.
func c07CheckSet(r *ev.Run, rules []c07Rule) int {
	f := c07Filter(rules)
	n := 0
	for _, path := range c07Paths {
		base, err := c07Impl(f, path)
		if err != nil {
			r.Violation("C07 check-error", fmt.Sprintf("Check returned error %v", err), c07Case{Rules: rules, Path: path})
			continue
		}
		for _, tail := range c07Tails {
			target := path + tail
			got := base
			if tail != "" {
				got, err = c07Impl(f, target)
				if err != nil {
					r.Violation("C07 check-error", fmt.Sprintf("Check returned error %v", err), c07Case{Rules: rules, Path: path, Tail: tail})
					continue
				}
			}
			n++
			want := c07RefTriggered(rules, target)
			isTail := strings.HasPrefix(tail, "?") || strings.HasPrefix(tail, "#") // otherwise the suffix is part of the path
			if isTail && len(tail) > 1 {
				if ga, err := c07ImplAttrs(f, target); err == nil && ga != got {
					r.Violation("C07 mismatch class=query/fragment-attributes dir=attributes-change-verdict",
						fmt.Sprintf("rules=%+v target=%q: triggered=%v, but %v when the request also carries the query/fragment attributes", rules, target, got, ga),
						c07Case{Rules: rules, Path: path, Tail: tail, Expect: want, Got: ga, Base: base})
				}
				n++
			}
			if got != want || (isTail && got != base) {
				class := "plain"
				if strings.HasPrefix(tail, "?") {
					class = "query"
				} else if strings.HasPrefix(tail, "#") {
					class = "fragment"
				}
				dir := "bypass(expected triggered, got not triggered)"
				if got && !want {
					dir = "overtrigger(expected not triggered, got triggered)"
				}
				if got == want {
					dir = "tail-changes-verdict"
				}
				sig := fmt.Sprintf("C07 mismatch class=%s dir=%s", class, dir)
				r.Violation(sig, fmt.Sprintf("rules=%+v target=%q expected triggered=%v got=%v (without tail: %v)", rules, target, want, got, base),
					c07Case{Rules: rules, Path: path, Tail: tail, Expect: want, Got: got, Base: base})
			}
			if len(rules) > 0 && path != "" {
				// non-trivial: a real rule evaluation took place
				r.Class(fmt.Sprintf("%s|tail=%v|trig=%v", c07Kinds(rules), tail != "", got))
			}
		}
	}
	return n
}

func c07Run(r *ev.Run) {
	r.Rule = "every rule set of the bounded grammar x every target path+tail; one real ExtAuthZFilter.Check per case (single always-deny mock filter: OK <=> not triggered) compared with a reference evaluator written from the statement and with the verdict for the same path without tail; a class is (pattern kinds used, tail present, verdict)"
	r.Assumptions = []string{
		"alphabet: 37 patterns (4 kinds x 9 texts + unset oneof), 7 paths x 12 tails; values outside it are not covered",
		"the 'and randomly beyond' clause of the quantifier is not claimed (sampling is a different family)",
		"regex semantics = Go regexp.MatchString; invalid regex / unset kind = no match",
	}
	all := c07Patterns()
	var sets [][]c07Rule
	// empty rule list
	sets = append(sets, nil)
	var single []c07Rule
	var pairRules []c07Rule
	if r.Tier == "thorough" {
		single = c07RulesFrom(all, 2, 2)
		pairRules = c07RulesFrom(c07Core(6), 2, 2)
	} else {
		single = c07RulesFrom(all, 1, 1)
		pairRules = c07RulesFrom(c07Core(10), 1, 1)
	}
	nSingle := len(single)
	nPairs := len(pairRules) * len(pairRules)
	total := 1 + nSingle + nPairs
	var evals int64
	var done int64
	par.For(total, r.Expired, func(i int) {
		var rules []c07Rule
		switch {
		case i == 0:
		case i <= nSingle:
			rules = []c07Rule{single[i-1]}
		default:
			k := i - 1 - nSingle
			rules = []c07Rule{pairRules[k/len(pairRules)], pairRules[k%len(pairRules)]}
		}
		n := c07CheckSet(r, rules)
		atomic.AddInt64(&evals, int64(n))
		atomic.AddInt64(&done, 1)
		if i == 5 || i == nSingle/2 || i == nSingle+nPairs/3 {
			r.Sample(map[string]any{"rules": rules, "targets": "all path+tail combinations", "example_target": "/a/b?.css",
				"reference_triggered": c07RefTriggered(rules, "/a/b?.css")})
		}
	})
	if int(done) != total {
		r.Cap(fmt.Sprintf("only %d of %d rule sets evaluated", done, total))
	}
	r.Evals = evals
	r.States = done      // distinct rule sets (configurations) explored
	r.Transitions = evals // one real Check call per (rule set, target)
	r.Traces = evals
	r.Extra["rule_sets"] = total
	r.Extra["targets_per_rule_set"] = len(c07Paths) * len(c07Tails)
}

func c07Replay(path string) int {
	var c c07Case
	if _, err := loadReplay(path, &c); err != nil {
		fmt.Println(err)
		return 2
	}
	f := c07Filter(c.Rules)
	got, err := c07Impl(f, c.Path+c.Tail)
	base, _ := c07Impl(f, c.Path)
	want := c07RefTriggered(c.Rules, c.Path+c.Tail)
	withAttrs, _ := c07ImplAttrs(f, c.Path+c.Tail)
	return replayVerdict("C07", err != nil || got != want || got != base || withAttrs != got,
		fmt.Sprintf("target=%q expected=%v got=%v without-tail=%v with-query/fragment-attributes=%v err=%v", c.Path+c.Tail, want, got, base, withAttrs, err))
}

func init() { Registry["C07"] = Prop{Run: c07Run, Replay: c07Replay} }

package props

import (
	"context"
	"fmt"
	"strings"
	"sync/atomic"

	envoy "github.com/envoyproxy/go-control-plane/envoy/service/auth/v3"
	"google.golang.org/grpc/codes"

	configv1 "github.com/istio-ecosystem/authservice/config/gen/go/v1"
	mockv1 "github.com/istio-ecosystem/authservice/config/gen/go/v1/mock"
	oidcv1 "github.com/istio-ecosystem/authservice/config/gen/go/v1/oidc"
	"github.com/istio-ecosystem/authservice/internal"
	"github.com/istio-ecosystem/authservice/internal/oidc"
	"github.com/istio-ecosystem/authservice/internal/server"
	"github.com/istio-ecosystem/authservice/zzverif/ev"
	"github.com/istio-ecosystem/authservice/zzverif/par"
	"github.com/istio-ecosystem/authservice/zzverif/world"
)

// C08: first matching chain judges; every filter in it must allow; unmatched is denied.

type c08Chain struct {
	Match   string `json:"match"`   // none | eq | prefix | EQ (mixed-case header name) | prefix-u
	Filters string `json:"filters"` // sequence over a(llow) d(eny) o(idc)
}

type c08Case struct {
	Chains         []c08Chain        `json:"chains"`
	AllowUnmatched bool              `json:"allow_unmatched"`
	Headers        map[string]string `json:"headers"`
	SameNames      bool              `json:"same_names,omitempty"` // all chains carry the same name
	// Earlier: requests sent to the SAME filter instance before this one (the verdict must not depend on them)
	Earlier []map[string]string `json:"earlier_requests,omitempty"`
	// Rules: "" no trigger rules | "all" rules under which the request path (/x) is triggered | "none" rules that
	// exclude it (then the request is allowed whatever the chains say)
	Rules string `json:"trigger_rules,omitempty"`
	// Debug: evaluated with log_level all:debug
	Debug bool `json:"debug_logging,omitempty"`
}

// countingStore counts store calls (an OIDC filter that is reached writes its login state).
type countingStore struct {
	oidc.SessionStore
	n *int64
}

func (c countingStore) SetAuthorizationState(ctx context.Context, sid string, a *oidc.AuthorizationState) error {
	atomic.AddInt64(c.n, 1)
	return nil
}
func (c countingStore) RemoveSession(ctx context.Context, sid string) error { return nil }

type countingFactory struct{ s oidc.SessionStore }

func (f countingFactory) Get(*oidcv1.OIDCConfig) oidc.SessionStore { return f.s }

func c08OIDC() *oidcv1.OIDCConfig {
	return &oidcv1.OIDCConfig{
		AuthorizationUri: "https://idp.test/auth", TokenUri: "https://idp.test/token", CallbackUri: "https://app.test/callback",
		JwksConfig: &oidcv1.OIDCConfig_Jwks{Jwks: `{"keys":[]}`}, ClientId: "cid",
		ClientSecretConfig: &oidcv1.OIDCConfig_ClientSecret{ClientSecret: "s"}, Scopes: []string{"openid"},
		IdToken: &oidcv1.TokenConfig{Header: "authorization", Preamble: "Bearer"},
	}
}

func (c c08Chain) proto(i int) *configv1.FilterChain {
	fc := &configv1.FilterChain{Name: fmt.Sprintf("chain%d", i)}
	switch c.Match {
	case "eq":
		fc.Match = &configv1.Match{Header: "x-t", Criteria: &configv1.Match_Equality{Equality: "v"}}
	case "prefix":
		fc.Match = &configv1.Match{Header: "x-t", Criteria: &configv1.Match_Prefix{Prefix: "v"}}
	case "EQ":
		fc.Match = &configv1.Match{Header: "X-T", Criteria: &configv1.Match_Equality{Equality: "v"}}
	case "prefix-u":
		fc.Match = &configv1.Match{Header: "x-u", Criteria: &configv1.Match_Prefix{Prefix: "w"}}
	}
	for _, f := range c.Filters {
		switch f {
		case 'a':
			fc.Filters = append(fc.Filters, &configv1.Filter{Type: &configv1.Filter_Mock{Mock: &mockv1.MockConfig{Allow: true}}})
		case 'd':
			fc.Filters = append(fc.Filters, &configv1.Filter{Type: &configv1.Filter_Mock{Mock: &mockv1.MockConfig{Allow: false}}})
		case 'o':
			fc.Filters = append(fc.Filters, &configv1.Filter{Type: &configv1.Filter_Oidc{Oidc: c08OIDC()}})
		}
	}
	return fc
}

// reference evaluator written from the statement
func c08RefMatch(m string, h map[string]string) bool {
	switch m {
	case "none":
		return true
	case "eq", "EQ":
		return h["x-t"] == "v"
	case "prefix":
		return strings.HasPrefix(h["x-t"], "v")
	case "prefix-u":
		return strings.HasPrefix(h["x-u"], "w")
	}
	return false
}

// returns status code, which filter kind answered ('a' = all allowed, 'd', 'o', '-' = no chain), oidc filters reached
func c08Ref(c c08Case) (codes.Code, byte, int64) {
	if c.Rules == "none" {
		return codes.OK, '-', 0 // not triggered: allowed, no chain is consulted
	}
	for _, ch := range c.Chains {
		if !c08RefMatch(ch.Match, c.Headers) {
			continue
		}
		var reached int64
		for _, f := range ch.Filters {
			switch f {
			case 'd':
				return codes.PermissionDenied, 'd', reached
			case 'o':
				reached++
				return codes.Unauthenticated, 'o', reached
			}
		}
		return codes.OK, 'a', reached
	}
	if c.AllowUnmatched {
		return codes.OK, '-', 0
	}
	return codes.PermissionDenied, '-', 0
}

var c08Pool = internal.NewTLSConfigPool(context.Background())

type c08Instance struct {
	f *server.ExtAuthZFilter
	n *int64
}

func c08NewInstance(c c08Case) c08Instance {
	cfg := &configv1.Config{AllowUnmatchedRequests: c.AllowUnmatched}
	switch c.Rules {
	case "all":
		cfg.TriggerRules = []*configv1.TriggerRule{{IncludedPaths: []*configv1.StringMatch{{MatchType: &configv1.StringMatch_Prefix{Prefix: "/"}}}},
			{ExcludedPaths: []*configv1.StringMatch{{MatchType: &configv1.StringMatch_Exact{Exact: "/healthz"}}}}}
	case "none":
		cfg.TriggerRules = []*configv1.TriggerRule{{ExcludedPaths: []*configv1.StringMatch{{MatchType: &configv1.StringMatch_Prefix{Prefix: "/x"}}}}}
	}
	for i, ch := range c.Chains {
		fc := ch.proto(i)
		if c.SameNames {
			fc.Name = "chain"
		}
		cfg.Chains = append(cfg.Chains, fc)
	}
	n := new(int64)
	return c08Instance{server.NewExtAuthZFilter(cfg, c08Pool, nil, countingFactory{countingStore{n: n}}), n}
}

func c08Impl(c c08Case) (code codes.Code, who byte, reached int64, msg string, err error) {
	if c.Debug {
		world.EnableDebugLogging()
	}
	inst := c08NewInstance(c)
	for _, e := range c.Earlier {
		c2 := c
		c2.Headers = e
		_, _, _, _, _ = c08ImplOn(inst, c2)
	}
	return c08ImplOn(inst, c)
}

func c08ImplOn(inst c08Instance, c c08Case) (code codes.Code, who byte, reached int64, msg string, err error) {
	f := inst.f
	atomic.StoreInt64(inst.n, 0)
	n := *inst.n
	_ = n
	h := map[string]string{}
	for k, v := range c.Headers {
		h[k] = v
	}
	req := &envoy.CheckRequest{Attributes: &envoy.AttributeContext{Request: &envoy.AttributeContext_Request{
		Http: &envoy.AttributeContext_HttpRequest{Id: "1", Method: "GET", Scheme: "https", Host: "app.test", Path: "/x", Headers: h}}}}
	resp, e := f.Check(context.Background(), req)
	if e != nil {
		return 0, 0, atomic.LoadInt64(inst.n), "", e
	}
	code = codes.Code(resp.GetStatus().GetCode())
	who = 'a'
	switch {
	case resp.GetDeniedResponse() != nil:
		who = 'o'
		loc := false
		for _, hv := range resp.GetDeniedResponse().GetHeaders() {
			if strings.EqualFold(hv.GetHeader().GetKey(), "location") {
				loc = true
			}
		}
		if !loc {
			who = '?'
		}
	case code != codes.OK:
		who = 'd'
	}
	return code, who, atomic.LoadInt64(inst.n), resp.GetStatus().GetMessage(), nil
}

func c08Check(run *ev.Run, c c08Case) {
	c08CheckOn(run, c08NewInstance(c), c)
}

func c08CheckOn(run *ev.Run, inst c08Instance, c c08Case) {
	wc, ww, wr := c08Ref(c)
	gc, gw, gr, _, err := c08ImplOn(inst, c)
	if err != nil {
		run.Violation("C08 check-error", err.Error(), c)
		return
	}
	// compared: allowed or not; whether the answer is the OIDC filter's (redirect) or a bare denial (a mock filter's
	// denial and the default denial are both bare and are not told apart, nor are particular status codes or
	// messages, which the statement does not fix); how many OIDC filters were reached
	if ww == '-' {
		if wc == codes.OK {
			ww = 'a'
		} else {
			ww = 'd'
		}
	}
	if (gc == codes.OK) != (wc == codes.OK) || gw != ww || gr != wr {
		kind := "verdict"
		if gc == wc && gw == ww {
			kind = "filters-evaluated-after-denial-or-skipped"
		} else if gc == wc {
			kind = "wrong-filter-answered"
		}
		dir := "too-permissive"
		if wc == codes.OK && gc != codes.OK {
			dir = "too-strict"
		} else if wc != codes.OK && gc != codes.OK {
			dir = "different-denial"
		}
		run.Violation(fmt.Sprintf("C08 %s %s", kind, dir),
			fmt.Sprintf("chains=%+v allow_unmatched=%v headers=%v: got code=%v by=%c oidc-filters-reached=%d; reference code=%v by=%c reached=%d",
				c.Chains, c.AllowUnmatched, c.Headers, gc, gw, gr, wc, ww, wr), c)
	}
	run.Class(fmt.Sprintf("n=%d|code=%v|by=%c|hdr=%d", len(c.Chains), gc, gw, len(c.Headers)))
}

func c08Run(run *ev.Run) {
	run.Rule = "every chain list of length 0..3 (thorough: filter sequences up to 3 per chain and length-4 lists over a reduced set) over match in {none, equality, prefix, equality with mixed-case header name, prefix on another header} x filter sequences over {allow-mock, deny-mock, real OIDC filter} x allow_unmatched x 6 header maps; one real ExtAuthZFilter.Check each, compared with a reference evaluator on status code, on which filter answered and on how many OIDC filters were reached (store writes); last, all lists of up to two chains once more with log_level all:debug (six requests on one long-lived filter, both orders); class = (chains, code, answering filter, headers)"
	run.Assumptions = []string{"requests carry lower-case header names, as Envoy sends them", "empty filter lists and empty criteria are rejected by the loader and are not in the alphabet"}
	matches := []string{"none", "eq", "prefix", "EQ", "prefix-u"}
	var seqs []string
	maxLen := 2
	if run.Tier == "thorough" {
		maxLen = 3
	}
	var gen func(p string)
	gen = func(p string) {
		if len(p) > 0 {
			seqs = append(seqs, p)
		}
		if len(p) == maxLen {
			return
		}
		for _, f := range "ado" {
			gen(p + string(f))
		}
	}
	gen("")
	var chains []c08Chain
	for _, m := range matches {
		for _, s := range seqs {
			chains = append(chains, c08Chain{m, s})
		}
	}
	headers := []map[string]string{{}, {"x-t": "v"}, {"x-t": "vv"}, {"x-t": ""}, {"x-u": "w"}, {"x-t": "v", "x-u": "w"}}
	n := len(chains)
	total := 1 + n + n*n + n*n*n
	var evals int64
	var lists int64
	par.For(total, run.Expired, func(i int) {
		var cl []c08Chain
		switch {
		case i == 0:
		case i < 1+n:
			cl = []c08Chain{chains[i-1]}
		case i < 1+n+n*n:
			k := i - 1 - n
			cl = []c08Chain{chains[k/n], chains[k%n]}
		default:
			k := i - 1 - n - n*n
			cl = []c08Chain{chains[k/(n*n)], chains[(k/n)%n], chains[k%n]}
		}
		for _, au := range []bool{false, true} {
			// one long-lived filter instance per configuration, as in the running service: the six requests are sent
			// to it one after the other (forward, then backward on a second instance with equal chain names), so a
			// verdict that depends on earlier requests is seen
			for pass := 0; pass < 2; pass++ {
				same := pass == 1
				inst := c08NewInstance(c08Case{Chains: cl, AllowUnmatched: au, SameNames: same})
				var earlier []map[string]string
				for k := range headers {
					h := headers[k]
					if pass == 1 {
						h = headers[len(headers)-1-k]
					}
					c08CheckOn(run, inst, c08Case{Chains: cl, AllowUnmatched: au, Headers: h, SameNames: same, Earlier: earlier})
					earlier = append(earlier, h)
					atomic.AddInt64(&evals, 1)
				}
			}
		}
		atomic.AddInt64(&lists, 1)
		if i%200003 == 7 {
			run.Sample(c08Case{Chains: cl, AllowUnmatched: false, Headers: headers[1]})
		}
	})
	// uncommon but legal header values (lists, blanks, case, control characters): the criterion is equality with, or
	// prefix of, the header value as it is - for all lists of one and two chains
	odd := []map[string]string{{"x-t": "a,v"}, {"x-t": "v,a"}, {"x-t": "a, v"}, {"x-t": " v"}, {"x-t": "v "}, {"x-t": "V"}, {"x-t": "\tv"}, {"x-t": "v\x00"},
		{"x-t": "a;v"}, {"x-t": "\"v\""}, {"x-u": "a,w"}, {"x-u": " w"}, {"x-t": "a,v", "x-u": "a, w"}, {"X-T": "v"}, {"x-t ": "v"}}
	par.For(n+n*n, run.Expired, func(i int) {
		var cl []c08Chain
		if i < n {
			cl = []c08Chain{chains[i]}
		} else {
			cl = []c08Chain{chains[(i-n)/n], chains[(i-n)%n]}
		}
		for _, au := range []bool{false, true} {
			inst := c08NewInstance(c08Case{Chains: cl, AllowUnmatched: au})
			var earlier []map[string]string
			for _, h := range odd {
				c08CheckOn(run, inst, c08Case{Chains: cl, AllowUnmatched: au, Headers: h, Earlier: earlier})
				earlier = append(earlier, h)
				atomic.AddInt64(&evals, 1)
			}
		}
	})
	run.Extra["odd_header_maps"] = len(odd)
	// trigger rules next to the chains: rules under which the request is triggered change nothing, rules that exclude
	// its path allow it without consulting any chain - for all lists of up to two chains x both flags
	par.For(1+n+n*n, run.Expired, func(i int) {
		var cl []c08Chain
		switch {
		case i == 0:
		case i <= n:
			cl = []c08Chain{chains[i-1]}
		default:
			cl = []c08Chain{chains[(i-1-n)/n], chains[(i-1-n)%n]}
		}
		for _, rules := range []string{"all", "none"} {
			for _, au := range []bool{false, true} {
				inst := c08NewInstance(c08Case{Chains: cl, AllowUnmatched: au, Rules: rules})
				var earlier []map[string]string
				for _, h := range headers {
					c08CheckOn(run, inst, c08Case{Chains: cl, AllowUnmatched: au, Headers: h, Earlier: earlier, Rules: rules})
					earlier = append(earlier, h)
					atomic.AddInt64(&evals, 1)
				}
			}
		}
	})
	// length-4 lists over a reduced per-chain set (thorough)
	if run.Tier == "thorough" {
		red := []c08Chain{{"none", "a"}, {"none", "d"}, {"eq", "ao"}, {"eq", "a"}, {"prefix", "da"}, {"prefix-u", "oa"}, {"EQ", "d"}, {"prefix", "a"}}
		m := len(red)
		par.For(m*m*m*m, run.Expired, func(i int) {
			cl := []c08Chain{red[i/(m*m*m)], red[(i/(m*m))%m], red[(i/m)%m], red[i%m]}
			for _, au := range []bool{false, true} {
				inst := c08NewInstance(c08Case{Chains: cl, AllowUnmatched: au})
				var earlier []map[string]string
				for _, h := range headers {
					c08CheckOn(run, inst, c08Case{Chains: cl, AllowUnmatched: au, Headers: h, Earlier: earlier})
					earlier = append(earlier, h)
					atomic.AddInt64(&evals, 1)
				}
			}
			atomic.AddInt64(&lists, 1)
		})
		total += m * m * m * m
	}
	if int(lists) != total {
		run.Cap(fmt.Sprintf("%d of %d chain lists", lists, total))
	}
	// once more with log_level all:debug (set up as cmd/main.go does) for all lists of up to two chains: what runs
	// only at debug level must not change a verdict, neither of this request nor of the ones after it
	world.EnableDebugLogging()
	var dbgEvals int64
	par.For(1+n+n*n, run.Expired, func(i int) {
		var cl []c08Chain
		switch {
		case i == 0:
		case i <= n:
			cl = []c08Chain{chains[i-1]}
		default:
			cl = []c08Chain{chains[(i-1-n)/n], chains[(i-1-n)%n]}
		}
		for _, au := range []bool{false, true} {
			for pass := 0; pass < 2; pass++ {
				inst := c08NewInstance(c08Case{Chains: cl, AllowUnmatched: au, Debug: true})
				var earlier []map[string]string
				for k := range headers {
					h := headers[k]
					if pass == 1 {
						h = headers[len(headers)-1-k]
					}
					c08CheckOn(run, inst, c08Case{Chains: cl, AllowUnmatched: au, Headers: h, Earlier: earlier, Debug: true})
					earlier = append(earlier, h)
					atomic.AddInt64(&dbgEvals, 1)
				}
			}
		}
	})
	evals += dbgEvals
	run.Extra["evaluations_with_debug_logging"] = dbgEvals
	run.Evals, run.States, run.Transitions, run.Traces = evals, lists, evals, evals
	run.Extra["chain_alphabet"] = n
}

func c08ReplayFn(path string) int {
	var c c08Case
	if _, err := loadReplay(path, &c); err != nil {
		fmt.Println(err)
		return 2
	}
	wc, ww, wr := c08Ref(c)
	gc, gw, gr, _, err := c08Impl(c)
	if ww == '-' && wc != codes.OK {
		ww = 'd'
	}
	return replayVerdict("C08", err != nil || (gc == codes.OK) != (wc == codes.OK) || (gw != ww && !(wc == codes.OK)) || gr != wr,
		fmt.Sprintf("got code=%v by=%c reached=%d; reference code=%v by=%c reached=%d err=%v", gc, gw, gr, wc, ww, wr, err))
}

func init() { Registry["C08"] = Prop{Run: c08Run, Replay: c08ReplayFn} }

package props

import (
	"fmt"
	"strings"

	"github.com/istio-ecosystem/authservice/zzverif/ev"
	"github.com/istio-ecosystem/authservice/zzverif/schedx"
	"github.com/istio-ecosystem/authservice/zzverif/seqx"
	"github.com/istio-ecosystem/authservice/zzverif/vsched"
	"github.com/istio-ecosystem/authservice/zzverif/world"
)

// C09: logout is final.

type c09Thread struct {
	Kind    string // logout | app | callback
	Res     world.Result
	RetStep int
	// StartStep: scheduler step at which the thread's request entered the handler
	StartStep int
}

func c09Scenario(store, pre string, nChecks int, bound int) schedx.Scenario {
	return c09ScenarioWith(store, pre, nChecks, bound, nil, true)
}

// c09ScenarioWith: ans = provider answer for the checks' token requests (nil = honest); withLogout=false replaces
// the logout thread by one more check on the same session.
func c09ScenarioWith(store, pre string, nChecks int, bound int, ans *world.Answer, withLogout bool) schedx.Scenario {
	name := fmt.Sprintf("logout||%dx%s store=%s", nChecks, pre, store)
	if !withLogout {
		name = fmt.Sprintf("%dx%s store=%s", nChecks+1, pre, store)
	}
	if ans != nil {
		name += " idp=" + ans.Name
	}
	return schedx.Scenario{
		Name: name, Bound: bound, PanicIsViolation: ans != nil || !withLogout,
		Setup: func() *schedx.Instance {
			w := world.New(world.Spec{Store: store, Forward: true, Logout: true})
			sid := c15Prepare(w, pre)
			n := 1 + nChecks
			w.Envs = make([]*world.Env, n)
			for i := range w.Envs {
				w.Envs[i] = &world.Env{}
			}
			ths := make([]*c09Thread, n)
			ths[0] = &c09Thread{Kind: "logout"}
			path := "/"
			kind := "app"
			if pre == "pending" {
				path = c15CallbackPath(w)
				kind = "callback"
			}
			if ans != nil {
				// the judged property here is crash freedom only (C15): the logout-finality monitors stay silent
				defer func() {}()
			}
			for i := 1; i < n; i++ {
				ths[i] = &c09Thread{Kind: kind}
			}
			bodies := make([]func(), n)
			bodies[0] = func() {
				if withLogout {
					ths[0].Res = w.Do(world.Req{Path: world.LogoutPath, Cookie: sid}, world.Plan{})
				} else {
					ths[0].Kind = kind
					ths[0].Res = w.Do(world.Req{Path: path, Cookie: sid}, world.Plan{Answer: ans})
				}
				ths[0].RetStep = vsched.Active().Steps()
			}
			for i := 1; i < n; i++ {
				i := i
				bodies[i] = func() {
					ths[i].Res = w.Do(world.Req{Path: path, Cookie: sid}, world.Plan{Answer: ans})
					ths[i].RetStep = vsched.Active().Steps()
				}
			}
			return &schedx.Instance{
				Threads: bodies,
				Close:   w.Close,
				Finish: func(x *schedx.Exec) (string, []schedx.Violation) {
					var viols []schedx.Violation
					var obs strings.Builder
					lo := ths[0]
					logoutAnswered := withLogout && ans == nil && !lo.Res.OK && world.IsRedirect(lo.Res.HTTPStatus) && lo.Res.Location == world.LogoutRedirect
					fmt.Fprintf(&obs, "logout(code=%v http=%d)@%d", lo.Res.Code, lo.Res.HTTPStatus, lo.RetStep)
					// which effective writes under sid came after the logout's RemoveSession
					writer := ""
					removed := false
					for _, c := range w.Store.Log {
						if c.SID != sid {
							continue
						}
						if c.Method == "RemoveSession" && strings.HasPrefix(c.Caller, "Process") && !strings.Contains(c.Caller, "redirectToIDP") {
							removed = true
							writer = ""
							continue
						}
						if removed && (c.Method == "SetTokenResponse" || c.Method == "SetAuthorizationState") {
							writer = c.Caller + ">" + c.Method
						}
					}
					for i := 0; i < n; i++ {
						if p := ths[i].Res.Panic; p != "" && (ans != nil || !withLogout) {
							viols = append(viols, schedx.Violation{Signature: "panic at=" + panicSite(ths[i].Res.Body) + " group=schedule",
								Message: fmt.Sprintf("thread %d (%s) panicked: %s", i, ths[i].Kind, p)})
						}
					}
					for i := 1; i < n; i++ {
						t := ths[i]
						fmt.Fprintf(&obs, " %s(ok=%v code=%v)@%d", t.Kind, t.Res.OK, t.Res.Code, t.RetStep)
						if logoutAnswered && t.Res.OK && t.RetStep > lo.RetStep {
							viols = append(viols, schedx.Violation{
								Signature: fmt.Sprintf("ok-after-logout-answer pre=%s writer=%s store=%s", pre, writer, store),
								Message:   fmt.Sprintf("check on the logged-out cookie answered OK at step %d, after the logout was answered at step %d", t.RetStep, lo.RetStep)})
						}
					}
					// follow-up after quiescence
					w.Envs = nil
					fu := w.Do(world.Req{Path: "/", Cookie: sid}, world.Plan{})
					fmt.Fprintf(&obs, " followup(ok=%v code=%v)", fu.OK, fu.Code)
					if logoutAnswered && fu.OK {
						viols = append(viols, schedx.Violation{
							Signature: fmt.Sprintf("resurrect writer=%s pre=%s store=%s", writer, pre, store),
							Message:   "after the logout was answered and all checks finished, the next request with the logged-out cookie is answered OK: the session was re-created by " + writer})
					}
					return obs.String(), viols
				},
			}
		},
	}
}

// sequential clause: the logout answer itself, also under store faults
func c09SeqMonitor(run *ev.Run, spec world.Spec) hMonitor {
	return func(h *hSys, o *hObs, hist []seqx.Event) {
		if o.Res.Crashed || o.Res.Panic != "" {
			return
		}
		full := append(append([]seqx.Event{}, hist...), o.Event)
		if !strings.HasPrefix(o.Req.Path, world.LogoutPath) {
			// finality in sequential histories: a session that a logout removed and that no login has filled since
			if o.Res.OK && o.SID != "" && (o.PreGhost == nil || o.PreGhost.Tokens == nil) && strings.HasPrefix(o.PreRemovedBy, "Process") && !strings.Contains(o.PreRemovedBy, "redirectToIDP") && !o.RedisFailed {
				run.Violation("C09 ok-after-logout sequential store="+spec.Store+fmt.Sprintf(" replicas=%d", max(spec.Replicas, 1)),
					fmt.Sprintf("request %+v carrying the cookie of a session that a logout removed (%s) is answered OK although no login has completed since", o.Req, o.PreRemovedBy), c01Replay{Spec: spec, History: full})
			}
			return
		}
		removeFailed := false
		removeEffective := false
		for _, c := range o.Calls {
			if c.Method == "RemoveSession" {
				if c.Failed {
					removeFailed = true
				}
				if c.Fault != "before" {
					removeEffective = true
				}
			}
		}
		isLogoutRedirect := !o.Res.OK && world.IsRedirect(o.Res.HTTPStatus) && o.Res.Location == h.W.ExpectedLogoutRedirect()
		if !o.Res.OK && world.IsRedirect(o.Res.HTTPStatus) && !isLogoutRedirect && !removeFailed && o.AuthzLoc == "" {
			run.Violation("C09 logout-redirects-to-wrong-end-session-uri", fmt.Sprintf("logout redirected to %q, expected the configured (or, when none is configured, the discovered) end-session URI %q", o.Res.Location, h.W.ExpectedLogoutRedirect()), c01Replay{Spec: spec, History: full})
			return
		}
		run.Class(fmt.Sprintf("seq-logout|cookie=%v|removeFailed=%v|redirect=%v", o.SID != "", removeFailed, isLogoutRedirect))
		if o.Res.OK {
			run.Violation("C09 logout-answered-OK", "a logout request was answered OK", c01Replay{Spec: spec, History: full})
			return
		}
		if o.RedisFailed && !removeFailed && isLogoutRedirect && o.SID != "" && h.W.HasAnything(o.SID) {
			run.Violation("C09 logout-success-although-redis-command-failed store="+spec.Store, fmt.Sprintf("a Redis command of the logout failed (%v), the session is still stored, yet the answer is the successful logout redirect", o.RedisCmds), c01Replay{Spec: spec, History: full})
			return
		}
		if removeFailed {
			if isLogoutRedirect {
				run.Violation("C09 logout-success-although-remove-failed store="+spec.Store, "RemoveSession failed but the answer is the successful logout redirect", c01Replay{Spec: spec, History: full})
			}
			return
		}
		if !isLogoutRedirect {
			run.Violation("C09 logout-without-end-session-redirect", fmt.Sprintf("logout answered code=%v http=%d location=%q", o.Res.Code, o.Res.HTTPStatus, o.Res.Location), c01Replay{Spec: spec, History: full})
			return
		}
		expired := false
		for _, sc := range o.Res.SetCookies {
			pc, err := parseSetCookie(sc)
			if err == nil && pc.Name == world.CookieName(spec.CookiePrefix) {
				if ma, ok := pc.Attrs["max-age"]; ok && (ma == "0" || strings.HasPrefix(ma, "-")) {
					expired = true
				}
			}
		}
		if !expired {
			run.Violation("C09 logout-does-not-expire-cookie", fmt.Sprintf("Set-Cookie %v", o.Res.SetCookies), c01Replay{Spec: spec, History: full})
		}
		if o.SID != "" && o.PreHad && !removeEffective && !o.RedisFailed && h.W.HasAnything(o.SID) {
			run.Violation("C09 logout-success-but-session-kept store="+spec.Store, fmt.Sprintf("logout request %+v carried the cookie of a stored session and was answered with the successful logout redirect, but the session was not removed (no RemoveSession call)", o.Req), c01Replay{Spec: spec, History: full})
		}
		if o.SID != "" && removeEffective && h.W.HasAnything(o.SID) {
			run.Violation("C09 session-survives-logout store="+spec.Store, "after a successful logout the store still holds the session", c01Replay{Spec: spec, History: full})
		}
	}
}

// c09LateStartScenario: a logout with two checks on a fresh session whose store has an idle time-out (a Redis token
// lookup is then two commands, HMGET and EXPIREAT, and another request can run between them). Judged here is only
// what no granularity argument can excuse: a check that ENTERED the handler after the logout had been answered is
// answered OK (and the follow-up after quiescence). A check that was between the commands of one store read when
// the logout was answered is not judged. Lock operations are scheduling points here (the memory store's methods are
// critical sections; one that is split in two lets another request in between).
func c09LateStartScenario(store string, bound int) schedx.Scenario {
	return schedx.Scenario{
		Name: fmt.Sprintf("logout||2xfresh idle store=%s (late start)", store), Bound: bound, SyncPoints: true,
		Setup: func() *schedx.Instance {
			w := world.New(world.Spec{Store: store, Forward: true, Logout: true, Idle: 3600})
			sid := c15Prepare(w, "fresh")
			const n = 3
			w.Envs = make([]*world.Env, n)
			for i := range w.Envs {
				w.Envs[i] = &world.Env{}
			}
			ths := make([]*c09Thread, n)
			ths[0] = &c09Thread{Kind: "logout"}
			bodies := make([]func(), n)
			bodies[0] = func() {
				ths[0].StartStep = vsched.Active().Steps()
				ths[0].Res = w.Do(world.Req{Path: world.LogoutPath, Cookie: sid}, world.Plan{})
				ths[0].RetStep = vsched.Active().Steps()
			}
			for i := 1; i < n; i++ {
				i := i
				ths[i] = &c09Thread{Kind: "app"}
				bodies[i] = func() {
					ths[i].StartStep = vsched.Active().Steps()
					ths[i].Res = w.Do(world.Req{Path: "/", Cookie: sid}, world.Plan{})
					ths[i].RetStep = vsched.Active().Steps()
				}
			}
			return &schedx.Instance{
				Threads: bodies,
				Close:   w.Close,
				Finish: func(x *schedx.Exec) (string, []schedx.Violation) {
					var viols []schedx.Violation
					var obs strings.Builder
					lo := ths[0]
					logoutAnswered := !lo.Res.OK && world.IsRedirect(lo.Res.HTTPStatus) && lo.Res.Location == world.LogoutRedirect
					fmt.Fprintf(&obs, "logout(code=%v http=%d)", lo.Res.Code, lo.Res.HTTPStatus)
					for i := 1; i < n; i++ {
						t := ths[i]
						late := t.StartStep > lo.RetStep
						fmt.Fprintf(&obs, " app(ok=%v code=%v late=%v)", t.Res.OK, t.Res.Code, late)
						if logoutAnswered && late && t.Res.OK {
							viols = append(viols, schedx.Violation{
								Signature: "ok-started-after-logout-answer pre=fresh store=" + store,
								Message:   fmt.Sprintf("a check that entered the handler at step %d, after the logout had been answered at step %d, is answered OK with the logged-out cookie", t.StartStep, lo.RetStep)})
						}
					}
					w.Envs = nil
					fu := w.Do(world.Req{Path: "/", Cookie: sid}, world.Plan{})
					fmt.Fprintf(&obs, " followup(ok=%v code=%v)", fu.OK, fu.Code)
					if logoutAnswered && fu.OK {
						viols = append(viols, schedx.Violation{
							Signature: "resurrect-late-start pre=fresh store=" + store,
							Message:   "after the logout was answered and all checks finished, the next request with the logged-out cookie is answered OK"})
					}
					return obs.String(), viols
				},
			}
		},
	}
}

func c09Scenarios(tier string) []schedx.Scenario {
	var scs []schedx.Scenario
	stores := []string{"memory", "redis"}
	for _, st := range stores {
		for _, pre := range []string{"fresh", "expired", "pending"} {
			if tier == "thorough" {
				if st == "redis" {
					scs = append(scs, c09Scenario(st, pre, 1, 4)) // (Redis commands are scheduling points: bounded)
				} else {
					scs = append(scs, c09Scenario(st, pre, 1, -1))
				}
				scs = append(scs, c09Scenario(st, pre, 2, 3))
			} else {
				scs = append(scs, c09Scenario(st, pre, 1, 2))
			}
		}
	}
	if tier != "thorough" {
		scs = append(scs, c09Scenario("memory", "expired", 2, 1))
		scs = append(scs, c09LateStartScenario("redis", 2), c09LateStartScenario("memory", 2))
	} else {
		scs = append(scs, c09LateStartScenario("redis", 3), c09LateStartScenario("memory", 3))
	}
	return scs
}

func c09Run(run *ev.Run) {
	run.Rule = "all interleavings (pre-emption bound 2 quick; unbounded for 2 threads and bound 3 for 3 threads thorough) of a logout with one or two concurrent checks on the same session (fresh, expired-refreshable, mid-login callback), at store-call and token-endpoint-call granularity, on the real handler with memory and Redis stores, followed by a request after quiescence; a late-start scenario (logout with two checks of a fresh session, idle time-out, lock operations and Redis commands as scheduling points) judging a check that entered the handler after the logout answer; plus a sequential BFS (depth 4, store faults) judging the logout answer itself; class = distinct observation logs (verdicts ordered against the logout answer)"
	run.Assumptions = []string{
		"scheduling points: every SessionStore call, every token-endpoint call, thread end; code between two such calls of one check runs atomically",
		"a verdict is 'produced' when Process returns; one that was produced before the logout answer is not judged",
		"discovery worlds (configuration_uri) use an in-process canned provider for the discovery document and the JWKS",
	}
	var schedules, points, states int64
	for _, sc := range c09Scenarios(run.Tier) {
		st := schedx.Explore(run, "C09", sc)
		schedules += st.Schedules
		points += st.Points
		states += int64(len(st.Distinct))
		for o := range st.Distinct {
			run.Class(sc.Name + "|" + o)
		}
		if !st.Complete {
			run.Cap("scenario " + sc.Name + " not completed")
		}
		run.Extra["schedules "+sc.Name] = st.Schedules
	}
	// sequential clause
	for _, spec := range []world.Spec{
		{Store: "memory", Forward: true, Logout: true},
		{Store: "redis", Forward: true, Logout: true},
		{Store: "redis", Forward: true, Logout: true, Replicas: 2},
		{Store: "memory", Forward: true, Logout: true, CookiePrefix: "app1"},
		{Store: "redis", Forward: true, Logout: true, CookiePrefix: "app1"},
		{Store: "memory", Forward: true, Logout: true, Discovery: true},
		{Store: "memory", Forward: true, Logout: true, Discovery: true, NoLogoutRedirect: true},
	} {
		o := hOpts{Spec: spec, Logout: true, Faults: true, RedisFaults: spec.Store == "redis", MaxDev: 1, FaultModes: []string{"before", "after"}, MaxSessions: 2, Advance: true}
		o.OddCookies = spec.Store == "memory" && !spec.Discovery
		if spec.Replicas == 2 {
			o.Faults, o.RedisFaults, o.MaxDev = false, false, 0
		}
		m := o.model(c09SeqMonitor(run, spec))
		m.MaxDepth = 4
		if run.Tier == "thorough" {
			m.MaxDepth = 5
		}
		if spec.Replicas == 2 {
			m.MaxDepth++ // login (2 requests), use on one replica, logout on the other, use again
		}
		st := seqx.Explore(run, m)
		states += st.States
		points += st.Transitions
		schedules += st.Histories
		if !st.Complete {
			run.Cap("sequential part not completed")
		}
	}
	run.States, run.Transitions, run.Traces, run.Evals = states, points, schedules, schedules
}

func c09ReplayFn(path string) int {
	var rp schedx.Replay
	if _, err := loadReplay(path, &rp); err != nil || rp.Scenario == "" {
		// sequential artefact
		var sr c01Replay
		if _, err := loadReplay(path, &sr); err != nil {
			fmt.Println(err)
			return 2
		}
		run := ev.NewRun("C09", "replay", "/nonexistent")
		o := hOpts{Spec: sr.Spec, Logout: true}
		m := o.model(c09SeqMonitor(run, sr.Spec))
		s := seqx.Replay(m, sr.History)
		s.Close()
		return replayVerdict("C09", run.Violations() > 0, "")
	}
	for _, sc := range append(c09Scenarios("quick"), c09Scenarios("thorough")...) {
		if sc.Name == rp.Scenario {
			obs, v, err := schedx.ReplayOnce(sc, rp.Choices)
			if err != nil {
				fmt.Println(err)
				return 2
			}
			return replayVerdict("C09", len(v) > 0, obs)
		}
	}
	fmt.Println("unknown scenario", rp.Scenario)
	return 2
}

func init() { Registry["C09"] = Prop{Run: c09Run, Replay: c09ReplayFn} }

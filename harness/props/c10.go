package props

import (
	"context"
	"encoding/json"
	"fmt"
	"io"
	"net"
	"net/http"
	"os"
	"os/exec"
	"path/filepath"
	"sort"
	"strings"
	"time"

	envoy "github.com/envoyproxy/go-control-plane/envoy/service/auth/v3"
	"google.golang.org/grpc"
	"google.golang.org/grpc/credentials/insecure"

	"github.com/alicebob/miniredis/v2"
	"github.com/redis/go-redis/v9"

	"github.com/istio-ecosystem/authservice/internal/oidc"
	"github.com/istio-ecosystem/authservice/zzverif/ev"
	"github.com/istio-ecosystem/authservice/zzverif/hidden"
	"github.com/istio-ecosystem/authservice/zzverif/seqx"
	"github.com/istio-ecosystem/authservice/zzverif/vsched"
	"github.com/istio-ecosystem/authservice/zzverif/vtime"
	"github.com/istio-ecosystem/authservice/zzverif/world"
)

// C10: absolute and idle session time-outs are enforced (store level, virtual clock).

// c10Cand is one possible abstract state of one session (the reference is a relation: inside the one-second
// band around a limit both "expired" and "alive" are acceptable, so a set of candidates is tracked).
type c10Cand struct {
	Present          bool
	C, UMin, UMax    int // seconds since T0
	HasTok, HasState bool
}

type c10Sys struct {
	kind      string
	abs, idle int
	now       time.Time
	clock     oidc.Clock
	store     oidc.SessionStore
	store2    oidc.SessionStore // a second replica on the same Redis server (nil for the memory store)
	rc2       *redis.Client
	mini      *miniredis.Miniredis
	rc        *redis.Client
	cands     map[string][]c10Cand
	tainted   bool // a violation was already reported on this history; later verdicts are not judged
}

func (s *c10Sys) Close() {
	if s.rc != nil {
		_ = s.rc.Close()
	}
	if s.rc2 != nil {
		_ = s.rc2.Close()
	}
	if s.mini != nil {
		world.Minis.Put(s.mini)
	}
}

func newC10Sys(kind string, abs, idle int) *c10Sys {
	s := &c10Sys{kind: kind, abs: abs, idle: idle, now: world.T0, cands: map[string][]c10Cand{}}
	s.clock = oidc.Clock{NowFn: func() time.Time { return s.now }}
	a, i := time.Duration(abs)*time.Second, time.Duration(idle)*time.Second
	if kind == "redis" {
		s.mini = world.Minis.Get()
		s.mini.SetTime(s.now)
		s.rc = redis.NewClient(&redis.Options{Addr: s.mini.Addr(), MaxRetries: -1})
		r, err := oidc.NewRedisStore(&s.clock, s.rc, a, i)
		if err != nil {
			panic(err)
		}
		s.store = r
		s.rc2 = redis.NewClient(&redis.Options{Addr: s.mini.Addr(), MaxRetries: -1})
		r2, err := oidc.NewRedisStore(&s.clock, s.rc2, a, i)
		if err != nil {
			panic(err)
		}
		s.store2 = r2
	} else {
		s.store = oidc.NewMemoryStore(&s.clock, a, i)
	}
	return s
}

func (s *c10Sys) t() int { return int(s.now.Sub(world.T0) / time.Second) }

// status of a candidate at time t: "dead" (must not be honoured), "alive" (must be honoured), "band" (either)
func (s *c10Sys) status(c c10Cand, t int) string {
	if !c.Present {
		return "absent"
	}
	if (s.abs > 0 && t > c.C+s.abs) || (s.idle > 0 && t > c.UMax+s.idle) {
		return "dead"
	}
	if (s.abs == 0 || t <= c.C+s.abs-1) && (s.idle == 0 || t <= c.UMin+s.idle-1) {
		return "alive"
	}
	return "band"
}

// expand resolves the liveness of each candidate at time t into concrete alternatives.
func (s *c10Sys) expand(id string, t int) []c10Cand {
	cs := s.cands[id]
	if len(cs) == 0 {
		cs = []c10Cand{{}}
	}
	var out []c10Cand
	for _, c := range cs {
		switch s.status(c, t) {
		case "absent", "dead":
			out = append(out, c10Cand{})
		case "alive":
			out = append(out, c)
		case "band":
			out = append(out, c, c10Cand{})
		}
	}
	return dedupCands(out)
}

func dedupCands(cs []c10Cand) []c10Cand {
	seen := map[c10Cand]bool{}
	var out []c10Cand
	for _, c := range cs {
		if !seen[c] {
			seen[c] = true
			out = append(out, c)
		}
	}
	sort.Slice(out, func(i, j int) bool { return fmt.Sprint(out[i]) < fmt.Sprint(out[j]) })
	return out
}

type c10Replay struct {
	Kind    string       `json:"store"`
	Abs     int          `json:"abs"`
	Idle    int          `json:"idle"`
	History []seqx.Event `json:"history"`
}

func c10Model(run *ev.Run, kind string, abs, idle int, ids []string) seqx.Model {
	return c10ModelR(run, kind, abs, idle, ids, false)
}

func c10ModelR(run *ev.Run, kind string, abs, idle int, ids []string, replicas bool) seqx.Model {
	replicas = replicas && kind == "redis"
	var evs []seqx.Event
	for _, id := range ids {
		for _, k := range []string{"SetTokens", "SetState", "GetTokens", "GetState", "Clear"} {
			evs = append(evs, seqx.Event{Kind: k, Who: id})
		}
		if replicas {
			// Redis, thorough: every operation may also go through a second replica, and sessions may be removed
			for _, k := range []string{"SetTokens", "GetTokens", "Remove"} {
				evs = append(evs, seqx.Event{Kind: k, Who: id, N: 1})
			}
			evs = append(evs, seqx.Event{Kind: "Remove", Who: id})
		}
	}
	evs = append(evs, seqx.Event{Kind: "Advance", Adv: 1}, seqx.Event{Kind: "Advance", Adv: 2})
	// the clean-up routine of the store interface: enforcement must not depend on it (histories without it are all
	// there), and running it is not a use of any session
	evs = append(evs, seqx.Event{Kind: "Sweep"})
	viol := func(s *c10Sys, sig, msg string, hist []seqx.Event, e seqx.Event) {
		run.Violation(fmt.Sprintf("C10 %s store=%s", sig, kind), fmt.Sprintf("(abs=%ds idle=%ds) %s", abs, idle, msg),
			c10Replay{Kind: kind, Abs: abs, Idle: idle, History: append(append([]seqx.Event{}, hist...), e)})
	}
	return seqx.Model{
		New: func() seqx.Sys { return newC10Sys(kind, abs, idle) },
		Apply: func(sy seqx.Sys, e seqx.Event, hist []seqx.Event, live bool) {
			s := sy.(*c10Sys)
			if e.Kind == "Advance" {
				d := time.Duration(e.Adv) * time.Second
				s.now = s.now.Add(d)
				if s.mini != nil {
					s.mini.SetTime(s.now)
					s.mini.FastForward(d)
				}
				// a store that sweeps in the background on a ticker is driven here (virtual tickers)
				if vtime.Live() > 0 {
					vtime.FireAll(s.now)
					vsched.Quiesce()
				}
				return
			}
			if e.Kind == "Sweep" {
				// (what the routine returns is not the property's subject: a store may well answer "not supported")
				_ = s.store.RemoveAllExpired(context.Background())
				return
			}
			t := s.t()
			id := e.Who
			alts := s.expand(id, t)
			ctx := context.Background()
			var next []c10Cand
			store := s.store
			if e.N == 1 && s.store2 != nil {
				store = s.store2
			}
			switch e.Kind {
			case "Remove":
				_ = store.RemoveSession(ctx, id)
				next = []c10Cand{{}}
			case "SetTokens", "SetState":
				var err error
				if e.Kind == "SetTokens" {
					err = store.SetTokenResponse(ctx, id, c12TokenValue("full"))
				} else {
					err = store.SetAuthorizationState(ctx, id, c12StateValue("w1"))
				}
				if err != nil && live {
					viol(s, "write-error", fmt.Sprintf("%s returned %v", e.Kind, err), hist, e)
				}
				for _, c := range alts {
					if !c.Present {
						c = c10Cand{Present: true, C: t}
					}
					c.UMin, c.UMax = t, t
					if e.Kind == "SetTokens" {
						c.HasTok = true
					} else {
						c.HasState = true
					}
					next = append(next, c)
				}
			case "GetTokens", "GetState":
				var got bool
				var err error
				if e.Kind == "GetTokens" {
					var tr *oidc.TokenResponse
					tr, err = store.GetTokenResponse(ctx, id)
					got = tr != nil
				} else {
					var as *oidc.AuthorizationState
					as, err = store.GetAuthorizationState(ctx, id)
					got = as != nil
				}
				if err != nil && live {
					viol(s, "read-error", fmt.Sprintf("%s returned %v", e.Kind, err), hist, e)
				}
				for _, c := range alts {
					has := c.Present && ((e.Kind == "GetTokens" && c.HasTok) || (e.Kind == "GetState" && c.HasState))
					if has != got {
						continue // this candidate is refuted by the observation
					}
					if c.Present && got {
						c.UMin, c.UMax = t, t
					}
					next = append(next, c)
					if c.Present && !got {
						// found the session but not the part asked for: may or may not count as use
						c2 := c
						c2.UMin, c2.UMax = t, t
						next = append(next, c2)
					}
				}
				if live {
					run.Class(fmt.Sprintf("%s|%s|got=%v|abs=%d|idle=%d", kind, e.Kind, got, abs, idle))
				}
				if len(next) == 0 {
					if live && !s.tainted {
						limits := "both"
						if s.abs == 0 {
							limits = "idle"
						} else if s.idle == 0 {
							limits = "abs"
						}
						if got {
							viol(s, "honoured-past-limit limits="+limits, fmt.Sprintf("t=%ds: %s(%s) returned data although every abstract candidate has the session (or that part of it) gone: past creation+absolute or last-use+idle (candidates before the read: %+v)", t, e.Kind, id, s.cands[id]), hist, e)
						} else {
							viol(s, "dropped-inside-both-limits limits="+limits, fmt.Sprintf("t=%ds: %s(%s) returned nothing although the session is inside both limits (candidates %+v)", t, e.Kind, id, s.cands[id]), hist, e)
						}
					}
					s.tainted = true
					next = []c10Cand{{}}
				}
			case "Clear":
				_ = store.ClearAuthorizationState(ctx, id)
				for _, c := range alts {
					if c.Present {
						c.HasState = false
						c2 := c
						c2.UMin, c2.UMax = t, t
						next = append(next, c, c2)
					} else {
						next = append(next, c)
					}
				}
			}
			s.cands[id] = dedupCands(next)
		},
		Enabled: func(sy seqx.Sys, hist []seqx.Event, fresh func() seqx.Sys) []seqx.Event {
			if sy.(*c10Sys).tainted {
				return nil
			}
			return evs
		},
		Canon: func(sy seqx.Sys) string {
			s := sy.(*c10Sys)
			var sb strings.Builder
			if s.mini != nil {
				keys := s.mini.Keys()
				sort.Strings(keys)
				for _, k := range keys {
					fs, _ := s.mini.HKeys(k)
					sort.Strings(fs)
					ta := s.mini.HGet(k, "time_added")
					rel := ""
					if tt, err := time.Parse(time.RFC3339Nano, ta); err == nil {
						rel = fmt.Sprint(tt.Sub(s.now))
					}
					fmt.Fprintf(&sb, "%s:%v ttl=%v added=%s;", k, fs, s.mini.TTL(k), rel)
				}
			} else {
				snap := oidc.VerifMemorySnapshot(s.store)
				var ids []string
				for id := range snap {
					ids = append(ids, id)
				}
				sort.Strings(ids)
				for _, id := range ids {
					v := snap[id]
					fmt.Fprintf(&sb, "%s:tok=%v st=%v added=%v acc=%v;", id, v.Tokens != nil, v.State != nil, v.Added.Sub(s.now), v.Accessed.Sub(s.now))
				}
			}
			if hs := hidden.Dump(s.store, "log", "clock", "mu", "sessions", "client", "absoluteSessionTimeout", "idleSessionTimeout"); hs != "{}" {
				sb.WriteString("|hidden:" + hs)
			}
			// the candidate sets are part of the state (they determine future verdicts)
			if s.tainted {
				sb.WriteString("|tainted")
			}
			var ids []string
			for id := range s.cands {
				ids = append(ids, id)
			}
			sort.Strings(ids)
			t := s.t()
			for _, id := range ids {
				fmt.Fprintf(&sb, "|%s", id)
				for _, c := range s.cands[id] {
					if c.Present {
						fmt.Fprintf(&sb, "{%d %d %d %v %v}", t-c.C, t-c.UMin, t-c.UMax, c.HasTok, c.HasState)
					} else {
						sb.WriteString("{}")
					}
				}
			}
			return sb.String()
		},
	}
}

func c10Pairs() [][2]int { return [][2]int{{0, 0}, {0, 3}, {3, 0}, {3, 5}, {3, 3}, {5, 3}} }

func c10Run(run *ev.Run) {
	run.Rule = "store level, virtual clock: for every (absolute, idle) pair in {(0,0),(0,3),(3,0),(3,5),(3,3),(5,3)} s and both stores (built with the constructors PreRun uses), BFS over all histories of {write tokens, write login state, read tokens, read login state, clear login state, advance 1 s} on one id (two in thorough), with and without calls of RemoveAllExpired in between (which must neither be needed nor count as a use); oracle: a relation tracked as a set of candidate abstract sessions (created c, last use u): a read must return nothing past c+A or u+I and must return the data up to one second before both limits; plus, at handler level, BFS over histories of whole checks (login from a prefix, token expiry, refresh with a rotating provider, logout) with an absolute time-out of 900 s (and an idle one of 800 s): no OK for a session older than the limit; class = (store, read kind, outcome, pair)"
	run.Assumptions = []string{
		"one second of granularity: at exactly c+A / u+I either answer is accepted",
		"whether a read that finds the session but not the requested part, or a clear, counts as 'use' is left open (both candidates are kept)",
		"background sweeps on a ticker inside the store would be driven by the virtual ticker after every clock advance",
		"binary level: the executable built from cmd/ is started three times (2 s absolute, 2 s idle, 3600 s) and driven over gRPC with a provider on loopback TCP; same one-sided assertions",
		"system level: a one-sided real-time replay through the real start-up wiring (loader, store factory PreRun, Check) on the memory store: 2 s limits must be enforced after 4 s, 3600 s limits must keep the session; miniredis has no wall-clock expiry, so Redis is judged at store level only",
	}
	vtime.SetVirtual(true)
	defer vtime.SetVirtual(false)
	depth := 8
	ids := []string{"a"}
	if run.Tier == "thorough" {
		depth = 11
	}
	var total seqx.Stats
	for _, kind := range []string{"memory", "redis"} {
		for _, p := range c10Pairs() {
			m := c10Model(run, kind, p[0], p[1], ids)
			m.MaxDepth = depth
			st := seqx.Explore(run, m)
			total.States += st.States
			total.Transitions += st.Transitions
			total.Histories += st.Histories
			if !st.Complete {
				run.Cap(fmt.Sprintf("%s (%d,%d): stopped at depth %d of %d", kind, p[0], p[1], st.DepthDone, depth))
			}
			run.Extra[fmt.Sprintf("levels_%s_%d_%d", kind, p[0], p[1])] = st.LevelSizes
		}
	}
	if run.Tier == "thorough" {
		for _, kind := range []string{"memory", "redis"} {
			for _, p := range [][2]int{{3, 5}, {5, 3}} {
				if kind == "redis" {
					mr := c10ModelR(run, kind, p[0], p[1], []string{"a"}, true)
					mr.MaxDepth = 8
					st := seqx.Explore(run, mr)
					total.States += st.States
					total.Transitions += st.Transitions
					total.Histories += st.Histories
					if !st.Complete {
						run.Cap(fmt.Sprintf("redis (%d,%d) two replicas: stopped at depth %d", p[0], p[1], st.DepthDone))
					}
				}
				m := c10Model(run, kind, p[0], p[1], []string{"a", "b"})
				m.MaxDepth = 8
				st := seqx.Explore(run, m)
				total.States += st.States
				total.Transitions += st.Transitions
				total.Histories += st.Histories
				if !st.Complete {
					run.Cap(fmt.Sprintf("%s (%d,%d) two ids: stopped at depth %d", kind, p[0], p[1], st.DepthDone))
				}
			}
		}
	}
	// handler level: the same limits seen through whole checks (login, token expiry, refresh with a rotating provider,
	// logout) - what the handler does around the store (removing and re-creating a session, say) must not move them
	for _, spec := range []world.Spec{
		{Store: "memory", Forward: true, Logout: true, Abs: 900, TokenLife: 600},
		{Store: "redis", Forward: true, Logout: true, Abs: 900, TokenLife: 600},
		{Store: "memory", Forward: true, Logout: true, Abs: 900, Idle: 800, TokenLife: 600},
		{Store: "redis", Forward: true, Logout: true, Abs: 900, Idle: 800, TokenLife: 600},
	} {
		spec := spec
		o := c01Opts("quick", spec)
		mon := func(h *hSys, ob *hObs, hist []seqx.Event) {
			if ob.Res.OK {
				if why := c01Justify(h, ob); why == "session-past-its-absolute-timeout" {
					run.Violation(fmt.Sprintf("C10 honoured-past-limit limits=abs store=%s handler-level", spec.Store),
						fmt.Sprintf("request %+v answered OK although the session's entry is older than the absolute time-out of %d s", ob.Req, spec.Abs),
						c01Replay{Spec: spec, History: append(append([]seqx.Event{}, hist...), ob.Event)})
				}
				run.Class(fmt.Sprintf("handler|%s|idle=%d|OK", spec.Store, spec.Idle))
			}
		}
		m := o.model(mon)
		m.MaxDepth = 5
		if run.Tier == "thorough" {
			m.MaxDepth = 6
		}
		st := seqx.Explore(run, m)
		total.States += st.States
		total.Transitions += st.Transitions
		total.Histories += st.Histories
		if !st.Complete {
			run.Cap(fmt.Sprintf("handler level %s: stopped at depth %d", spec.Store, st.DepthDone))
		}
	}
	// as assembled at start-up: two Redis-backed filters on ONE server and database whose URIs are spelled differently
	// (with and without the database suffix) and whose time-outs differ, in both configuration orders - each filter's
	// sessions carry that filter's limits (the TTL Redis holds for the key)
	for _, swap := range []bool{false, true} {
		lax := world.FilterSpec{Name: "lax", Realm: "idp-a.test", ClientID: "client-a", Secret: "sa", CookiePrefix: "pa", Redis: "r1"}
		strict := world.FilterSpec{Name: "strict", Realm: "idp-b.test", ClientID: "client-b", Secret: "sb", CookiePrefix: "pb", Redis: "r1/0", Abs: 60, Idle: 30}
		fs := []world.FilterSpec{lax, strict}
		if swap {
			fs = []world.FilterSpec{strict, lax}
		}
		sw, err := world.NewSWorld(fs, nil)
		if err != nil {
			run.HarnessError("C10 start-up pair: " + err.Error())
			break
		}
		for _, f := range fs {
			sid, _, err := sw.Login(f)
			if err != nil {
				run.HarnessError("C10 start-up pair login: " + err.Error())
				break
			}
			mr := sw.Redis["r1"]
			ttl := mr.DB(0).TTL(world.RedisKeyFor(mr, 0, sid))
			want := time.Duration(0)
			if f.Idle > 0 {
				want = time.Duration(f.Idle) * time.Second
			}
			diff := ttl - want
			if diff < 0 {
				diff = -diff
			}
			total.Transitions++
			run.Class(fmt.Sprintf("startup-pair|first=%s|filter=%s|ttl=%v", fs[0].Name, f.Name, ttl > 0))
			if diff > 3*time.Second {
				run.Violation(fmt.Sprintf("C10 session-carries-another-filters-limits filter=%s store=redis same-server-and-db", f.Name),
					fmt.Sprintf("configuration order %s,%s: the session of filter %s (absolute %d s, idle %d s) has TTL %v in Redis, expected %v", fs[0].Name, fs[1].Name, f.Name, f.Abs, f.Idle, ttl, want),
					map[string]any{"level": "server-pair", "filters": fs})
			}
		}
		sw.Close()
	}
	run.States, run.Transitions, run.Traces, run.Evals = total.States, total.Transitions, total.Histories, total.Transitions
	run.Extra["depth"] = depth
	c10RealTime(run)
	c10Binary(run)
}

// c10Binary drives the BUILT BINARY (cmd/main.go wiring, real gRPC server) over loopback: one process with a 2 s
// absolute timeout, one with 3600 s limits; login through a provider served by this process over loopback TCP;
// one-sided real-time assertions as in c10RealTime.
func c10Binary(run *ev.Run) {
	bin := os.Getenv("VERIF_BINARY")
	if bin == "" {
		run.Extra["binary_replay"] = "skipped (VERIF_BINARY not set; use ./check C10)"
		return
	}
	world.InitKeys()
	type proc struct {
		name      string
		abs, idle int
		wantAlive bool
		cmd       *exec.Cmd
		conn      *grpc.ClientConn
		cl        envoy.AuthorizationClient
		idp       *world.SimIdP
		srv       *http.Server
		sid       string
	}
	freePort := func() int {
		l, err := net.Listen("tcp", "127.0.0.1:0")
		if err != nil {
			panic(err)
		}
		defer l.Close()
		return l.Addr().(*net.TCPAddr).Port
	}
	procs := []*proc{{name: "absolute=2s", abs: 2, wantAlive: false}, {name: "idle=2s", idle: 2, wantAlive: false}, {name: "3600s", abs: 3600, idle: 3600, wantAlive: true}}
	scratch := os.Getenv("VERIF_SCRATCH")
	if scratch == "" {
		scratch = os.TempDir()
	}
	cleanup := func() {
		for _, p := range procs {
			if p.conn != nil {
				p.conn.Close()
			}
			if p.cmd != nil && p.cmd.Process != nil {
				_ = p.cmd.Process.Kill()
				_, _ = p.cmd.Process.Wait()
			}
			if p.srv != nil {
				_ = p.srv.Close()
			}
		}
	}
	defer cleanup()
	check := func(p *proc, path, cookie string) (*envoy.CheckResponse, error) {
		h := map[string]string{":path": path}
		if cookie != "" {
			h["cookie"] = world.CookieName("") + "=" + cookie
		}
		ctx, cancel := context.WithTimeout(context.Background(), 10*time.Second)
		defer cancel()
		return p.cl.Check(ctx, &envoy.CheckRequest{Attributes: &envoy.AttributeContext{Request: &envoy.AttributeContext_Request{
			Http: &envoy.AttributeContext_HttpRequest{Id: "r", Method: "GET", Scheme: "https", Host: "app.test", Path: path, Headers: h}}}})
	}
	for i, p := range procs {
		// provider over loopback TCP
		ln, err := net.Listen("tcp", "127.0.0.1:0")
		if err != nil {
			run.HarnessError("C10 binary: " + err.Error())
			return
		}
		base := "http://" + ln.Addr().String()
		p.idp = world.NewSimIdP(time.Now, "client-bin", func() string { return "secret-bin" }, "https://app.test/callback")
		p.idp.TokenLife = 3600
		p.srv = &http.Server{Handler: p.idp}
		go func(s *http.Server, l net.Listener) { _ = s.Serve(l) }(p.srv, ln)
		port, hport := freePort(), freePort()
		o := map[string]any{"authorization_uri": base + "/auth", "token_uri": base + "/token", "callback_uri": "https://app.test/callback",
			"jwks": world.JWKS(world.KeyEC, world.KeyRSA), "client_id": "client-bin", "client_secret": "secret-bin",
			"id_token": map[string]any{"header": "authorization", "preamble": "Bearer"}}
		if p.abs > 0 {
			o["absolute_session_timeout"] = p.abs
		}
		if p.idle > 0 {
			o["idle_session_timeout"] = p.idle
		}
		doc := map[string]any{"listen_address": "127.0.0.1", "listen_port": port, "health_listen_address": "127.0.0.1", "health_listen_port": hport, "log_level": "error",
			"chains": []any{map[string]any{"name": "c", "filters": []any{map[string]any{"oidc": o}}}}}
		b, _ := json.Marshal(doc)
		cf := filepath.Join(scratch, fmt.Sprintf("c10-binary-%d.json", i))
		_ = os.WriteFile(cf, b, 0o600)
		p.cmd = exec.Command(bin, "--config-path", cf)
		p.cmd.Stdout, p.cmd.Stderr = io.Discard, io.Discard
		if err := p.cmd.Start(); err != nil {
			run.HarnessError("C10 binary: cannot start: " + err.Error())
			return
		}
		addr := fmt.Sprintf("127.0.0.1:%d", port)
		ok := false
		for k := 0; k < 200; k++ {
			if c, err := net.DialTimeout("tcp", addr, 100*time.Millisecond); err == nil {
				c.Close()
				ok = true
				break
			}
			time.Sleep(50 * time.Millisecond)
		}
		if !ok {
			run.HarnessError("C10 binary: the service did not start listening on " + addr)
			return
		}
		conn, err := grpc.NewClient(addr, grpc.WithTransportCredentials(insecure.NewCredentials()))
		if err != nil {
			run.HarnessError("C10 binary: " + err.Error())
			return
		}
		p.conn, p.cl = conn, envoy.NewAuthorizationClient(conn)
		// login
		r1, err := check(p, "/app", "")
		if err != nil {
			run.HarnessError("C10 binary: first check: " + err.Error())
			return
		}
		res1 := world.ParseResponse(r1)
		name := world.CookieName("") + "="
		for _, sc := range res1.SetCookies {
			if strings.HasPrefix(sc, name) {
				p.sid = strings.SplitN(strings.TrimPrefix(sc, name), ";", 2)[0]
			}
		}
		cb, _, aerr := p.idp.Authorize(res1.Location)
		if p.sid == "" || aerr != nil {
			run.HarnessError(fmt.Sprintf("C10 binary: login step 1 failed (code %v, %v)", res1.Code, aerr))
			return
		}
		r2, err := check(p, strings.TrimPrefix(cb, "https://app.test"), p.sid)
		if err != nil || !world.IsRedirect(world.ParseResponse(r2).HTTPStatus) {
			run.HarnessError(fmt.Sprintf("C10 binary: callback failed (%v)", err))
			return
		}
		if p.wantAlive {
			if r, err := check(p, "/app", p.sid); err != nil || !world.ParseResponse(r).OK {
				run.Violation("C10 binary-drops-fresh-session", "the built service does not honour a fresh session with 3600 s limits", map[string]any{"config": p.name})
			}
		}
	}
	time.Sleep(4 * time.Second)
	for _, p := range procs {
		r, err := check(p, "/app", p.sid)
		if err != nil {
			run.HarnessError("C10 binary: final check: " + err.Error())
			continue
		}
		ok := world.ParseResponse(r).OK
		run.Class(fmt.Sprintf("binary|%s|ok-after-4s=%v", p.name, ok))
		run.Transitions += 4
		run.Traces++
		if !p.wantAlive && ok {
			run.Violation("C10 binary-honours-past-limit config="+p.name, "the built binary (cmd/ wiring, memory store, "+p.name+") still answers OK 4 s after login", map[string]any{"config": p.name})
		}
		if p.wantAlive && !ok {
			run.Violation("C10 binary-drops-session-inside-limits", "3600 s limits but the built binary dropped the session after 4 s", map[string]any{"config": p.name})
		}
	}
	run.Extra["binary_replay"] = "ran (3 processes)"
}

// c10RealTime: the service as actually assembled at start-up (real loader, real store factory PreRun, real
// ExtAuthZFilter.Check with the real clock), memory store, one filter per configuration. One-sided real-time
// assertions only: a 2 s limit must be enforced after 4 s; a 3600 s limit must not drop the session.
func c10RealTime(run *ev.Run) {
	type cfg struct {
		name      string
		abs, idle int
		wantAlive bool
	}
	cfgs := []cfg{{"absolute=2s", 2, 0, false}, {"idle=2s", 0, 2, false}, {"absolute=3600s idle=3600s", 3600, 3600, true},
		// kept alive by a request every ~1.3 s: activity must not stretch the absolute limit, and must stretch the idle one
		{"absolute=2s idle=3600s keep-alive", 2, 3600, false}, {"absolute=3600s idle=2s keep-alive", 3600, 2, true}}
	type live struct {
		c       cfg
		sw      *world.SWorld
		f       world.FilterSpec
		sid, cn string
	}
	var ls []live
	for _, c := range cfgs {
		f := world.FilterSpec{Name: "a", Realm: "idp-a.test", ClientID: "client-a", Secret: "sa", Abs: c.abs, Idle: c.idle}
		sw, err := world.NewSWorld([]world.FilterSpec{f}, nil)
		if err != nil {
			run.HarnessError("C10 real-time world: " + err.Error())
			return
		}
		sid, cn, err := sw.Login(f)
		if err != nil {
			run.HarnessError("C10 real-time login: " + err.Error())
			sw.Close()
			return
		}
		// immediately after login the session must be honoured (only asserted for the long limits: no race with the clock)
		if c.wantAlive {
			if r := sw.Do(world.SReq{Tenant: "a", Path: "/a/app", Cookies: map[string]string{cn: sid}}); !r.OK {
				run.Violation("C10 assembled-service-drops-fresh-session", "request right after login not OK with 3600 s limits", map[string]any{"config": c.name})
			}
		}
		ls = append(ls, live{c, sw, f, sid, cn})
	}
	// 4 s in three steps; the keep-alive configurations get a request at every step
	maxGap := time.Duration(0)
	last := time.Now()
	for step := 0; step < 3; step++ {
		time.Sleep(1334 * time.Millisecond)
		for _, l := range ls {
			if strings.Contains(l.c.name, "keep-alive") && step < 2 {
				l.sw.Do(world.SReq{Tenant: "a", Path: "/a/app", Cookies: map[string]string{l.cn: l.sid}})
			}
		}
		if g := time.Since(last); g > maxGap {
			maxGap = g
		}
		last = time.Now()
	}
	for _, l := range ls {
		if l.c.wantAlive && strings.Contains(l.c.name, "keep-alive") && maxGap > 1700*time.Millisecond {
			// the machine stalled: the idle limit may legitimately have passed between two keep-alive requests
			run.Class("realtime|" + l.c.name + "|skipped-slow-machine")
			l.sw.Close()
			continue
		}
		r := l.sw.Do(world.SReq{Tenant: "a", Path: "/a/app", Cookies: map[string]string{l.cn: l.sid}})
		run.Class(fmt.Sprintf("realtime|%s|ok-after-4s=%v", l.c.name, r.OK))
		run.Transitions += 3
		if !l.c.wantAlive && r.OK {
			run.Violation("C10 assembled-service-honours-past-limit store=memory config="+l.c.name,
				"the service as assembled at start-up (memory store, "+l.c.name+") still answers OK 4 s after login", map[string]any{"config": l.c.name})
		}
		if l.c.wantAlive && !r.OK {
			run.Violation("C10 assembled-service-drops-session-inside-limits", "3600 s limits but the session is gone after 4 s", map[string]any{"config": l.c.name})
		}
		l.sw.Close()
	}
}

func c10ReplayFn(path string) int {
	var hr c01Replay
	if _, err := loadReplay(path, &hr); err == nil && hr.Spec.Store != "" {
		// handler-level artefact
		violated := false
		o := c01Opts("quick", hr.Spec)
		m := o.model(func(h *hSys, ob *hObs, hist []seqx.Event) {
			if ob.Res.OK && c01Justify(h, ob) == "session-past-its-absolute-timeout" {
				violated = true
			}
		})
		s := seqx.Replay(m, hr.History)
		s.Close()
		return replayVerdict("C10", violated, "")
	}
	var rp c10Replay
	if _, err := loadReplay(path, &rp); err != nil {
		fmt.Println(err)
		return 2
	}
	vtime.SetVirtual(true)
	run := ev.NewRun("C10", "replay", "/nonexistent")
	s := seqx.Replay(c10ModelR(run, rp.Kind, rp.Abs, rp.Idle, []string{"a", "b"}, true), rp.History)
	s.Close()
	return replayVerdict("C10", run.Violations() > 0, "")
}

func init() { Registry["C10"] = Prop{Run: c10Run, Replay: c10ReplayFn} }

package props

import (
	"context"
	"fmt"
	"strings"
	"time"

	"github.com/istio-ecosystem/authservice/internal/oidc"
	"github.com/istio-ecosystem/authservice/zzverif/ev"
	"github.com/istio-ecosystem/authservice/zzverif/schedx"
	"github.com/istio-ecosystem/authservice/zzverif/seqx"
	"github.com/istio-ecosystem/authservice/zzverif/world"
)

// C11: refresh keeps the session current or ends it.

var loginPrefix = []seqx.Event{
	{Kind: "req", Req: &world.Req{Path: "/"}},
	{Kind: "req", Req: &world.Req{Path: "/callback?code={code#0}&state={state#0}", Cookie: "#0"}},
}

func c11Answers(tier string) []world.Answer {
	as := []world.Answer{
		world.Honest, // rotates the refresh token
		{Name: "keep-rt", KeepRT: true},
		{Name: "omit-id-token", NoIDToken: true},
		{Name: "omit-access-token", NoAccess: true},
		{Name: "omit-expires-in", NoExpiresIn: true},
		{Name: "foreign-key", Evil: "foreign-same-kid"},
		{Name: "aud-foreign", Evil: "aud-other"},
		{Name: "http400", Status: 400},
		{Name: "transport-error", Transport: "after"},
	}
	if tier == "thorough" {
		as = append(as, world.Answer{Name: "http500", Status: 500}, world.Answer{Name: "not-bearer", TokenType: "mac"},
			world.Answer{Name: "omit-id-keep-rt", NoIDToken: true, KeepRT: true}, world.Answer{Name: "rsa-signed", RSA: true},
			world.Answer{Name: "no-nonce-claim", NoNonce: true}, world.Answer{Name: "sig-stripped", Evil: "sig-stripped"})
	}
	return as
}

func c11Monitor(run *ev.Run, spec world.Spec) hMonitor {
	viol := func(sig, msg string, hist []seqx.Event, e seqx.Event) {
		full := append(append(append([]seqx.Event{}, loginPrefix...), hist...), e)
		run.Violation("C11 "+sig+" store="+spec.Store, msg, c01Replay{Spec: spec, History: full})
	}
	return func(h *hSys, o *hObs, hist []seqx.Event) {
		w := h.W
		if o.Res.Panic != "" {
			run.Incident("panic (C15's subject): " + firstLine(o.Res.Panic))
			return
		}
		if strings.HasPrefix(o.Req.Path, "/callback") || o.SID == "" || o.PreGhost == nil || o.PreGhost.Tokens == nil {
			return
		}
		// what a session holds may only change through the store's write, which comes after the validation of the
		// refresh result: content that changes behind the interface is a result other checks see before (or without) it
		if strings.HasPrefix(o.Drift, "tokens:") && len(o.TokenReqs) > 0 {
			viol("refresh-result-in-the-session-before-validation", o.Drift, hist, o.Event)
			return
		}
		old := o.PreGhost.Tokens
		idIss := w.IdP.Issued[old.IDToken]
		expired := idIss != nil && idIss.Exp.Before(o.Now)
		if ai := w.IdP.Issued[old.AccessToken]; !expired && ai != nil && w.Cfg.GetAccessToken() != nil && !old.AccessTokenExpiresAt.IsZero() &&
			ai.Exp.Before(o.Now) {
			expired = true
		}
		var refreshes []*world.TokenReq
		for _, tr := range o.TokenReqs {
			if tr.Grant == "refresh_token" {
				refreshes = append(refreshes, tr)
			}
		}
		ans := "honest"
		if o.Event.Plan != nil && o.Event.Plan.Answer != nil {
			ans = o.Event.Plan.Answer.Name
		}
		if len(refreshes) == 0 {
			if expired && old.RefreshToken != "" && !o.Res.OK {
				viol("no-refresh-attempt", fmt.Sprintf("tokens of %s expired and a refresh token is held, but no refresh-grant request reached the provider; answer %v", o.SID, o.Res.Code), hist, o.Event)
			}
			return
		}
		if len(refreshes) > 1 {
			viol("multiple-refresh-requests", fmt.Sprintf("%d refresh requests in one check", len(refreshes)), hist, o.Event)
		}
		tr := refreshes[0]
		run.Class(fmt.Sprintf("refresh|answer=%s|result=%s|ok=%v|rolled=%v", ans, tr.Result, o.Res.OK, w.Rolled))
		if got := tr.Form.Get("refresh_token"); strings.HasPrefix(tr.Result, "invalid_grant") {
			viol("stale-refresh-token", fmt.Sprintf("refresh request carried %q which is not the provider's current refresh token (%s)", got, tr.Result), hist, o.Event)
			return
		}
		if tr.Result == "invalid_client" {
			viol("bad-client-credentials", "refresh request did not carry the client's id and secret", hist, o.Event)
			return
		}
		if tr.Form.Get("grant_type") != "refresh_token" {
			viol("bad-grant-type", "grant_type="+tr.Form.Get("grant_type"), hist, o.Event)
		}
		// reference merge and reference validation of its ID token under the keys the provider publishes NOW
		ref := oidc.TokenResponse{IDToken: old.IDToken, AccessToken: old.AccessToken, RefreshToken: old.RefreshToken, AccessTokenExpiresAt: old.AccessTokenExpiresAt}
		if tr.IDToken != "" {
			ref.IDToken = tr.IDToken
		}
		mergedValid := false
		if claims, err := world.VerifyIndependent(ref.IDToken, w.Keys...); err == nil && world.AudContains(claims, w.Cfg.GetClientId()) {
			mergedValid = true
		}
		if tr.Answered == 200 && tr.HonestOK && mergedValid {
			if tr.Access != "" {
				ref.AccessToken = tr.Access
			}
			if tr.Refresh != "" {
				ref.RefreshToken = tr.Refresh
			}
			expGiven := o.Event.Plan == nil || o.Event.Plan.Answer == nil || !o.Event.Plan.Answer.NoExpiresIn
			if !o.Res.OK {
				viol("successful-refresh-not-allowed", fmt.Sprintf("provider answered the refresh honestly (%s) but the request was answered %v", ans, o.Res.Code), hist, o.Event)
				return
			}
			got, err := w.Raw.GetTokenResponse(context.Background(), o.SID)
			if err != nil || got == nil {
				viol("merged-result-not-stored", fmt.Sprintf("after a successful refresh the store holds nothing under the session (err=%v)", err), hist, o.Event)
				return
			}
			diff := ""
			if got.IDToken != ref.IDToken {
				diff += " id_token"
			}
			if got.AccessToken != ref.AccessToken {
				diff += " access_token"
			}
			if got.RefreshToken != ref.RefreshToken {
				diff += " refresh_token"
			}
			if expGiven {
				want := o.Now.Add(time.Duration(w.IdP.TokenLife) * time.Second)
				if got.AccessTokenExpiresAt.After(want) || got.AccessTokenExpiresAt.Before(want.Add(-10*time.Second)) {
					diff += " access_expiry"
				}
			} else if !got.AccessTokenExpiresAt.Equal(old.AccessTokenExpiresAt) {
				diff += " access_expiry(kept)"
			}
			if diff != "" {
				viol("wrong-merge fields="+strings.TrimSpace(diff)+" answer="+ans, fmt.Sprintf("stored after refresh %+v, reference merge %+v", *got, ref), hist, o.Event)
			}
			// forwarded headers
			wantID := w.Cfg.GetIdToken().GetPreamble() + " " + ref.IDToken
			okID, okAT := false, w.Cfg.GetAccessToken() == nil || ref.AccessToken == ""
			for _, hv := range o.Res.Headers {
				if hv[0] == w.Cfg.GetIdToken().GetHeader() && hv[1] == wantID {
					okID = true
				}
				if w.Cfg.GetAccessToken() != nil && hv[0] == w.Cfg.GetAccessToken().GetHeader() && hv[1] == ref.AccessToken {
					okAT = true
				}
			}
			if !okID || !okAT {
				viol("forwarded-not-merged answer="+ans, fmt.Sprintf("headers %v do not carry the merged tokens", o.Res.Headers), hist, o.Event)
			}
			return
		}
		// failed exchange or failed validation
		if o.Res.OK {
			viol("allowed-after-failed-refresh answer="+ans, fmt.Sprintf("refresh failed (%s, status %d) but the request was allowed", tr.Result, tr.Answered), hist, o.Event)
			return
		}
		if w.HasAnything(o.SID) {
			viol("stale-session-kept answer="+ans, "refresh failed but the stale session is still in the store", hist, o.Event)
		}
		if o.AuthzLoc == "" || w.SessionFromSetCookie(o.Res) == "" || w.SessionFromSetCookie(o.Res) == o.SID {
			viol("no-relogin-redirect answer="+ans, fmt.Sprintf("refresh failed; expected a login redirect with a new cookie, got code=%v location=%q", o.Res.Code, o.Res.Location), hist, o.Event)
		}
	}
}

func c11Run(run *ev.Run) {
	run.Rule = "BFS from the logged-in state over {request with the session cookie, advance to/past token expiry, re-login callbacks} x provider refresh behaviours (rotate, keep, omit id/access/expires_in, foreign key, foreign audience, HTTP 400/500, lost answer, non-Bearer) and a signing-key roll-over at any point; every refresh-grant request is checked against the provider's ledger (current refresh token, credentials) and the stored+forwarded result against a reference merge; class = (answer, ledger result, verdict)"
	run.Assumptions = []string{
		"handler-level world, token lifetime 60 s virtual, time-outs 0",
		"an unparsable id_token in a refresh answer is outside the alphabet (the statement does not say whether it counts as omitted)",
		"access-token expiry compared with 10 s tolerance (the statement does not fix the safety margin)",
	}
	depth := 9
	if run.Tier == "thorough" {
		depth = 12
	}
	var total seqx.Stats
	stores := []string{"memory", "redis", "memory+cancel"}
	defer debugLogTail(run, 7, func(s world.Spec) seqx.Model {
		o := hOpts{Spec: s, Advance: true, GoodIdP: c11Answers("quick"), Prefix: loginPrefix, OnlyLive: true, MaxSessions: 3, Rollover: true}
		return o.model(c11Monitor(run, s))
	}, world.Spec{Store: "memory", Forward: true}, world.Spec{Store: "redis", Forward: true})
	for _, store := range stores {
		spec := world.Spec{Store: strings.TrimSuffix(store, "+cancel"), Forward: true}
		o := hOpts{Spec: spec, Advance: true, GoodIdP: c11Answers(run.Tier), Prefix: loginPrefix, OnlyLive: true, MaxSessions: 3, Rollover: true}
		if strings.HasSuffix(store, "+cancel") {
			// the caller gives up (ext_authz time-out, client gone) at any environment call of a check, before it or after
			// its effect: what the provider has committed by then must not be lost to the session. Memory store only: the
			// Redis client refuses to work on a cancelled context, which turns a cancellation into store failures - a
			// different subject (environment faults: C01)
			o.Faults, o.FaultModes, o.MaxDev, o.MaxSessions, o.Rollover = true, []string{"cancel", "cancel-after"}, 1, 1, false
			o.GoodIdP = o.GoodIdP[:1]
		}
		m := o.model(c11Monitor(run, spec))
		m.MaxDepth = depth
		if strings.HasSuffix(store, "+cancel") {
			m.MaxDepth = 5
		}
		st := seqx.Explore(run, m)
		total.States += st.States
		total.Transitions += st.Transitions
		total.Histories += st.Histories
		total.Replayed += st.Replayed
		if !st.Complete {
			run.Cap(fmt.Sprintf("store=%s: search stopped at depth %d of %d", store, st.DepthDone, depth))
		}
		run.Extra["levels_"+store] = st.LevelSizes
	}
	for _, st := range []string{"memory", "redis"} {
		b := 2
		if run.Tier == "thorough" {
			b = 3
		}
		cs := schedx.Explore(run, "C11", c11ConcScenario(st, b))
		total.Histories += cs.Schedules
		total.Transitions += cs.Points
		run.Class(fmt.Sprintf("overlapping-refreshes|store=%s|outcomes=%d", st, len(cs.Distinct)))
		if !cs.Complete {
			run.Cap("scenario not completed: overlapping refreshes " + st)
		}
	}
	run.States, run.Transitions, run.Traces, run.Evals = total.States, total.Transitions, total.Histories, total.Transitions
	run.Extra["replayed_events"] = total.Replayed
	run.Extra["depth"] = depth
}

// c11ConcScenario: two checks on ONE expired session overlap; the provider rotates the refresh token at the first
// refresh it accepts and omits the member afterwards. Whatever the interleaving, a session that still holds tokens at
// the end holds the provider's CURRENT refresh token (omitted members are kept from the session as it is, not as one
// of the checks once read it), and the next refresh after the tokens expire again is accepted.
func c11ConcScenario(store string, bound int) schedx.Scenario {
	return schedx.Scenario{Name: "2 checks on one expired session, rotate once then omit, store=" + store, Bound: bound, PanicIsViolation: true,
		Setup: func() *schedx.Instance {
			w := world.New(world.Spec{Store: store, Forward: true})
			sid := c15Prepare(w, "expired")
			w.Envs = []*world.Env{{}, {}}
			ans := world.Answer{Name: "rotate-once", RotateOnce: true}
			var res [2]world.Result
			bodies := make([]func(), 2)
			for i := range bodies {
				i := i
				bodies[i] = func() { res[i] = w.Do(world.Req{Path: "/", Cookie: sid}, world.Plan{Answer: &ans}) }
			}
			return &schedx.Instance{Threads: bodies, Close: w.Close, Finish: func(x *schedx.Exec) (string, []schedx.Violation) {
				var viols []schedx.Violation
				obs := fmt.Sprintf("t0(ok=%v) t1(ok=%v)", res[0].OK, res[1].OK)
				w.Envs = nil
				w.Env = &world.Env{}
				t, err := w.Raw.GetTokenResponse(context.Background(), sid)
				if err == nil && t != nil && len(w.IdP.Logins) > 0 {
					cur := w.IdP.Logins[0].CurrentRT
					obs += fmt.Sprintf(" stored-rt-current=%v", t.RefreshToken == cur)
					if t.RefreshToken != cur {
						viols = append(viols, schedx.Violation{Signature: "stale-refresh-token-stored after-overlapping-refreshes",
							Message: fmt.Sprintf("after both checks the session holds refresh token %q, the provider's current one is %q: the next refresh will be refused", t.RefreshToken, cur)})
					}
				} else {
					obs += " session-gone"
				}
				return obs, viols
			}}
		}}
}

func c11ReplayFn(path string) int {
	var sr schedx.Replay
	if _, err := loadReplay(path, &sr); err == nil && sr.Scenario != "" {
		for _, st := range []string{"memory", "redis"} {
			if sc := c11ConcScenario(st, 2); sc.Name == sr.Scenario {
				obs, v, err := schedx.ReplayOnce(sc, sr.Choices)
				if err != nil {
					fmt.Println(err)
					return 2
				}
				return replayVerdict("C11", len(v) > 0, obs)
			}
		}
		return 2
	}
	var rp c01Replay
	if _, err := loadReplay(path, &rp); err != nil {
		fmt.Println(err)
		return 2
	}
	run := ev.NewRun("C11", "replay", "/nonexistent")
	o := hOpts{Spec: rp.Spec, Advance: true, GoodIdP: c11Answers("thorough"), Rollover: true}
	m := o.model(c11Monitor(run, rp.Spec))
	s := seqx.Replay(m, rp.History)
	s.Close()
	return replayVerdict("C11", run.Violations() > 0, "")
}

func init() { Registry["C11"] = Prop{Run: c11Run, Replay: c11ReplayFn} }

package props

import (
	"context"
	"fmt"
	"sort"
	"strings"
	"time"

	"github.com/alicebob/miniredis/v2"
	"github.com/redis/go-redis/v9"

	"github.com/istio-ecosystem/authservice/internal/oidc"
	"github.com/istio-ecosystem/authservice/zzverif/ev"
	"github.com/istio-ecosystem/authservice/zzverif/hidden"
	"github.com/istio-ecosystem/authservice/zzverif/schedx"
	"github.com/istio-ecosystem/authservice/zzverif/seqx"
	"github.com/istio-ecosystem/authservice/zzverif/vsched"
	"github.com/istio-ecosystem/authservice/zzverif/world"
)

// C12: memory and Redis stores both implement one abstract session map.

type c12Ref struct {
	Tokens  map[string]*oidc.TokenResponse
	State   map[string]*oidc.AuthorizationState
	Created map[string]time.Time // fixed by the first write of the entry; gone with Remove or expiry
	Abs     time.Duration        // absolute time-out (0: none)
	Used    map[string]time.Time // last use (writes, and reads that found what they asked for)
	Idle    time.Duration        // idle time-out (0: none)
}

func newC12Ref() *c12Ref {
	return &c12Ref{Tokens: map[string]*oidc.TokenResponse{}, State: map[string]*oidc.AuthorizationState{}, Created: map[string]time.Time{}, Used: map[string]time.Time{}}
}

// expire drops the entry under id when it has outlived the absolute time-out (the harness never lands exactly on
// the limit, where the two stores legitimately differ).
func (r *c12Ref) expire(id string, now time.Time) {
	c, ok := r.Created[id]
	if !ok {
		return
	}
	if (r.Abs > 0 && c.Add(r.Abs).Before(now)) || (r.Idle > 0 && r.Used[id].Add(r.Idle).Before(now)) {
		delete(r.Created, id)
		delete(r.Used, id)
		delete(r.State, id)
		delete(r.Tokens, id)
	}
}

func (r *c12Ref) touch(id string, now time.Time) {
	if _, ok := r.Created[id]; !ok {
		r.Created[id] = now
	}
	r.Used[id] = now
}


func c12TokenValue(v string) *oidc.TokenResponse {
	world.InitKeys()
	// distinct id tokens per variant so that a stale value is visible
	id := world.Mint(world.KeyEC, nil, map[string]any{"sub": "u-" + v, "aud": "c", "exp": world.T0.Add(time.Hour).Unix()})
	exp := world.T0.Add(30 * time.Minute)
	switch v {
	case "full":
		return &oidc.TokenResponse{IDToken: id, AccessToken: "at-" + v, RefreshToken: "rt-" + v, AccessTokenExpiresAt: exp}
	case "no-access":
		return &oidc.TokenResponse{IDToken: id, RefreshToken: "rt-" + v}
	case "no-refresh":
		return &oidc.TokenResponse{IDToken: id, AccessToken: "at-" + v, AccessTokenExpiresAt: exp}
	case "zero-expiry":
		return &oidc.TokenResponse{IDToken: id, AccessToken: "at-" + v, RefreshToken: "rt-" + v}
	case "stale-claims":
		// an ID token whose exp is long past and whose iat/nbf lie in the future by the wall clock: a store keeps and
		// returns what it was given, judging tokens is the handler's business
		old := world.Mint(world.KeyEC, nil, map[string]any{"sub": "u-" + v, "aud": "c", "exp": int64(1000000000), "iat": int64(4102444800), "nbf": int64(4102444800)})
		return &oidc.TokenResponse{IDToken: old, AccessToken: "at-" + v, RefreshToken: "rt-" + v, AccessTokenExpiresAt: time.Unix(1000000000, 0)}
	}
	panic(v)
}

func c12StateValue(w string) *oidc.AuthorizationState {
	return &oidc.AuthorizationState{State: "st-" + w, Nonce: "n-" + w, RequestedURL: "https://app.test/" + w, CodeVerifier: "v-" + w}
}

func fmtTok(t *oidc.TokenResponse) string {
	if t == nil {
		return "nil"
	}
	exp := "zero"
	if !t.AccessTokenExpiresAt.IsZero() {
		exp = t.AccessTokenExpiresAt.UTC().Format(time.RFC3339Nano)
	}
	id := t.IDToken
	if len(id) > 12 {
		id = id[len(id)-12:]
	}
	return fmt.Sprintf("{id=%s at=%s rt=%s exp=%s}", id, t.AccessToken, t.RefreshToken, exp)
}

func fmtState(a *oidc.AuthorizationState) string {
	if a == nil {
		return "nil"
	}
	return fmt.Sprintf("{%s %s %s %s}", a.State, a.Nonce, a.RequestedURL, a.CodeVerifier)
}

// applyRef applies op to the reference map and returns the value a read must return.
func (r *c12Ref) apply(op, id, val string, now time.Time) string {
	r.expire(id, now)
	switch op {
	case "SetTokens":
		r.touch(id, now)
		r.Tokens[id] = c12TokenValue(val)
	case "GetTokens":
		if r.Tokens[id] != nil {
			r.Used[id] = now
		}
		return fmtTok(r.Tokens[id])
	case "SetState":
		r.touch(id, now)
		r.State[id] = c12StateValue(val)
	case "GetState":
		return fmtState(r.State[id])
	case "Clear":
		delete(r.State, id)
	case "Remove":
		delete(r.State, id)
		delete(r.Tokens, id)
		delete(r.Created, id)
	}
	return ""
}

func (r *c12Ref) dump() string {
	var ids []string
	seen := map[string]bool{}
	for id := range r.Tokens {
		if !seen[id] {
			ids = append(ids, id)
			seen[id] = true
		}
	}
	for id := range r.State {
		if !seen[id] {
			ids = append(ids, id)
			seen[id] = true
		}
	}
	sort.Strings(ids)
	var sb strings.Builder
	for _, id := range ids {
		fmt.Fprintf(&sb, "%s:%s/%s;", id, fmtTok(r.Tokens[id]), fmtState(r.State[id]))
	}
	return sb.String()
}

// applyStore applies op to a real store; returns the read value ("" for writes) and the error.
func c12ApplyStore(s oidc.SessionStore, op, id, val string) (string, error) {
	ctx := context.Background()
	switch op {
	case "SetTokens":
		return "", s.SetTokenResponse(ctx, id, c12TokenValue(val))
	case "GetTokens":
		t, err := s.GetTokenResponse(ctx, id)
		return fmtTok(t), err
	case "SetState":
		return "", s.SetAuthorizationState(ctx, id, c12StateValue(val))
	case "GetState":
		a, err := s.GetAuthorizationState(ctx, id)
		return fmtState(a), err
	case "Clear":
		return "", s.ClearAuthorizationState(ctx, id)
	case "Remove":
		return "", s.RemoveSession(ctx, id)
	}
	panic(op)
}

// storeDump reads the whole content of a store through white-box means (no side effects on 'last used').
func c12MemDump(s oidc.SessionStore) string {
	snap := oidc.VerifMemorySnapshot(s)
	var ids []string
	for id := range snap {
		ids = append(ids, id)
	}
	sort.Strings(ids)
	var sb strings.Builder
	for _, id := range ids {
		fmt.Fprintf(&sb, "%s:%s/%s;", id, fmtTok(snap[id].Tokens), fmtState(snap[id].State))
	}
	return sb.String()
}

type c12Sys struct {
	now   time.Time
	clock oidc.Clock
	mem   oidc.SessionStore
	mini  *miniredis.Miniredis
	rc    [2]*redis.Client
	red   [2]oidc.SessionStore
	ref   *c12Ref
}

func (s *c12Sys) Close() {
	for _, c := range s.rc {
		if c != nil {
			_ = c.Close()
		}
	}
	world.Minis.Put(s.mini)
}

func newC12Sys(abs, idle time.Duration) *c12Sys {
	s := &c12Sys{now: world.T0, ref: newC12Ref()}
	s.ref.Abs, s.ref.Idle = abs, idle
	s.clock = oidc.Clock{NowFn: func() time.Time { return s.now }}
	s.mem = oidc.NewMemoryStore(&s.clock, abs, idle)
	s.mini = world.Minis.Get()
	s.mini.SetTime(s.now)
	for i := range s.rc {
		s.rc[i] = redis.NewClient(&redis.Options{Addr: s.mini.Addr(), MaxRetries: -1})
		r, err := oidc.NewRedisStore(&s.clock, s.rc[i], abs, idle)
		if err != nil {
			panic(err)
		}
		s.red[i] = r
	}
	return s
}

func (s *c12Sys) redisDump() string {
	keys := s.mini.Keys()
	sort.Strings(keys)
	var sb strings.Builder
	for _, k := range keys {
		fields, _ := s.mini.HKeys(k)
		sort.Strings(fields)
		fmt.Fprintf(&sb, "%s:", k)
		for _, f := range fields {
			if f == "time_added" {
				continue
			}
			v := s.mini.HGet(k, f)
			if f == "id_token" && len(v) > 12 {
				v = v[len(v)-12:]
			}
			fmt.Fprintf(&sb, "%s=%s,", f, v)
		}
		sb.WriteString(";")
	}
	return sb.String()
}

type c12Replay struct {
	History []seqx.Event `json:"history"`
	Abs     int          `json:"abs,omitempty"`
	Idle    int          `json:"idle,omitempty"`
}

// createdCheck compares the creation time both stores keep for every entry of the reference with the reference's
// (fixed by the first write of the entry). White-box, no side effects.
func (s *c12Sys) createdCheck() string {
	snap := oidc.VerifMemorySnapshot(s.mem)
	for id, c := range s.ref.Created {
		if s.ref.Abs > 0 && c.Add(s.ref.Abs).Before(s.now) {
			continue // expired in the abstract, possibly not yet collected
		}
		if se, ok := snap[id]; ok && !se.Added.Equal(c) {
			return fmt.Sprintf("memory store: entry %q created %v after the start by its first write, the store says %v", id, c.Sub(world.T0), se.Added.Sub(world.T0))
		}
		if v := s.mini.HGet(id, "time_added"); v != "" {
			if t, err := time.Parse(time.RFC3339Nano, v); err == nil && !t.Equal(c) {
				return fmt.Sprintf("redis store: entry %q created %v after the start by its first write, the store says %v", id, c.Sub(world.T0), t.Sub(world.T0))
			}
		}
	}
	return ""
}

func c12Model(run *ev.Run, absSec int) seqx.Model { return c12ModelI(run, absSec, 0) }

// c12ModelI: idleSec > 0 restricts the alphabet to operations whose effect on "last used" is beyond doubt (token
// writes, token reads) - whether a read that finds the session but not the part asked for counts as use is left open.
func c12ModelI(run *ev.Run, absSec, idleSec int) seqx.Model {
	ids := []string{"a", "b"}
	// (only values the handler can write: the ID token is always a JWT that parsed)
	shapes := []string{"full", "no-access", "no-refresh", "zero-expiry", "stale-claims"}
	if absSec > 0 {
		ids, shapes = []string{"a"}, []string{"full", "no-access"}
	}
	abs := time.Duration(absSec) * time.Second
	idle := time.Duration(idleSec) * time.Second
	var alphabet []seqx.Event
	for _, id := range ids {
		for _, v := range shapes {
			alphabet = append(alphabet, seqx.Event{Kind: "SetTokens", Who: id, Arg: v})
		}
		alphabet = append(alphabet, seqx.Event{Kind: "GetTokens", Who: id})
		if idleSec > 0 {
			continue
		}
		for _, w := range []string{"w1", "w2"} {
			alphabet = append(alphabet, seqx.Event{Kind: "SetState", Who: id, Arg: w})
		}
		alphabet = append(alphabet, seqx.Event{Kind: "GetState", Who: id}, seqx.Event{Kind: "Clear", Who: id}, seqx.Event{Kind: "Remove", Who: id})
	}
	var evs []seqx.Event
	for _, e := range alphabet {
		for route := 0; route < 2; route++ {
			e2 := e
			e2.N = route
			evs = append(evs, e2)
		}
	}
	if absSec > 0 {
		// never exactly on the limit (absSec is odd, advances are even)
		evs = append(evs, seqx.Event{Kind: "Advance", Adv: 2}, seqx.Event{Kind: "Advance", Adv: absSec + 1})
		if idleSec > 0 {
			evs = append(evs, seqx.Event{Kind: "Advance", Adv: 4})
		}
	} else {
		evs = append(evs, seqx.Event{Kind: "Advance", Adv: 1})
	}
	return seqx.Model{
		New: func() seqx.Sys { return newC12Sys(abs, idle) },
		Apply: func(sy seqx.Sys, e seqx.Event, hist []seqx.Event, live bool) {
			s := sy.(*c12Sys)
			if e.Kind == "Advance" {
				s.now = s.now.Add(time.Duration(e.Adv) * time.Second)
				s.mini.SetTime(s.now)
				s.mini.FastForward(time.Duration(e.Adv) * time.Second)
				return
			}
			want := s.ref.apply(e.Kind, e.Who, e.Arg, s.now)
			gm, em := c12ApplyStore(s.mem, e.Kind, e.Who, e.Arg)
			gr, er := c12ApplyStore(s.red[e.N], e.Kind, e.Who, e.Arg)
			if !live {
				return
			}
			full := c12Replay{History: append(append([]seqx.Event{}, hist...), e), Abs: absSec, Idle: idleSec}
			isRead := e.Kind == "GetTokens" || e.Kind == "GetState"
			run.Class(fmt.Sprintf("%s|found=%v", e.Kind, want != "nil" && want != ""))
			if em != nil && !(e.Kind == "Clear") {
				run.Violation("C12 memory-error op="+e.Kind, fmt.Sprintf("memory store returned error %v", em), full)
			}
			if er != nil && !(e.Kind == "Clear") {
				run.Violation("C12 redis-error op="+e.Kind, fmt.Sprintf("redis store returned error %v", er), full)
			}
			if isRead {
				if gm != want {
					run.Violation("C12 memory-read-differs op="+e.Kind, fmt.Sprintf("memory returned %s, abstract map %s", gm, want), full)
				}
				if gr != want {
					run.Violation(fmt.Sprintf("C12 redis-read-differs op=%s", e.Kind), fmt.Sprintf("redis (instance %d) returned %s, abstract map %s", e.N, gr, want), full)
				}
			}
			if why := s.createdCheck(); why != "" {
				run.Violation("C12 creation-time-not-fixed-by-first-write after="+e.Kind, why, full)
			}
			// whole-content comparison after every operation (memory, white-box)
			if d := c12MemDump(s.mem); absSec == 0 && d != s.ref.dump() {
				// a memory session object without state and tokens is not observable through the interface
				if strings.ReplaceAll(d, "nil/nil;", "") != s.ref.dump() && !c12OnlyEmptyDiff(d, s.ref.dump()) {
					run.Violation("C12 memory-content-differs after="+e.Kind, fmt.Sprintf("memory holds %s, abstract map %s", d, s.ref.dump()), full)
				}
			}
		},
		Enabled: func(sy seqx.Sys, hist []seqx.Event, fresh func() seqx.Sys) []seqx.Event { return evs },
		Canon: func(sy seqx.Sys) string {
			s := sy.(*c12Sys)
			ages := ""
			if absSec > 0 {
				snap := oidc.VerifMemorySnapshot(s.mem)
				for _, id := range ids {
					if se, ok := snap[id]; ok {
						ages += fmt.Sprintf("|m:%s:%v:%v", id, s.now.Sub(se.Added), s.now.Sub(se.Accessed))
					}
					// the reference's own clock values are state too (two histories may leave the stores alike and the
					// reference different - exactly when a store has lost track of a use)
					if c, ok := s.ref.Created[id]; ok {
						ages += fmt.Sprintf("|ref:%s:%v:%v", id, s.now.Sub(c), s.now.Sub(s.ref.Used[id]))
					}
					if v := s.mini.HGet(id, "time_added"); v != "" {
						if t, err := time.Parse(time.RFC3339Nano, v); err == nil {
							ages += fmt.Sprintf("|r:%s:%v:%v", id, s.now.Sub(t), s.mini.TTL(id))
						}
					}
				}
			}
			return ages + c12MemDump(s.mem) + "|" + s.redisDump() + "|" + hidden.Dump(s.mem, "log", "clock", "mu", "sessions") +
				hidden.Dump(s.red[0], "log", "clock", "client") + hidden.Dump(s.red[1], "log", "clock", "client")
		},
	}
}

// c12OnlyEmptyDiff: the memory store keeps an empty session object (id present, nothing in it) where the
// abstract map has no entry; that is not observable through the interface.
func c12OnlyEmptyDiff(mem, ref string) bool {
	var kept []string
	for _, part := range strings.Split(mem, ";") {
		if part == "" || strings.HasSuffix(part, ":nil/nil") {
			continue
		}
		kept = append(kept, part)
	}
	m := strings.Join(kept, ";")
	if m != "" {
		m += ";"
	}
	return m == ref
}

// ---- concurrent part: linearizability of the memory store ----

type c12Op struct {
	Op, ID, Val string
}

type c12Event struct {
	Thread    int
	Op        c12Op
	Call, Ret int
	Result    string
}

func c12ConcScenario(name string, threads [][]c12Op, bound int) schedx.Scenario {
	return schedx.Scenario{
		Name: name, Bound: bound, SyncPoints: true, PanicIsViolation: true, DeadlockIsViolation: true,
		Setup: func() *schedx.Instance {
			now := world.T0
			clock := oidc.Clock{NowFn: func() time.Time { return now }}
			mem := oidc.NewMemoryStore(&clock, 0, 0)
			hist := make([][]c12Event, len(threads))
			bodies := make([]func(), len(threads))
			for i := range threads {
				i := i
				bodies[i] = func() {
					for _, op := range threads[i] {
						s := vsched.Active()
						call := s.Steps()
						res, _ := c12ApplyStore(mem, op.Op, op.ID, op.Val)
						hist[i] = append(hist[i], c12Event{Thread: i, Op: op, Call: call, Ret: s.Steps(), Result: res})
					}
				}
			}
			return &schedx.Instance{Threads: bodies, Finish: func(x *schedx.Exec) (string, []schedx.Violation) {
				var all []c12Event
				for _, h := range hist {
					all = append(all, h...)
				}
				final := c12MemDump(mem)
				var obs strings.Builder
				for _, e := range all {
					fmt.Fprintf(&obs, "t%d:%s(%s,%s)=%s@%d-%d ", e.Thread, e.Op.Op, e.Op.ID, e.Op.Val, e.Result, e.Call, e.Ret)
				}
				obs.WriteString("final=" + final)
				if !c12Linearizable(all, final) {
					return obs.String(), []schedx.Violation{{Signature: "not-linearizable scenario=" + name,
						Message: "no sequential order consistent with real-time precedence explains the results: " + obs.String()}}
				}
				return obs.String(), nil
			}}
		},
	}
}

// c12Linearizable: brute force over all orders consistent with real-time precedence and per-thread order.
func c12Linearizable(evs []c12Event, final string) bool {
	n := len(evs)
	used := make([]bool, n)
	order := make([]int, 0, n)
	var rec func() bool
	rec = func() bool {
		if len(order) == n {
			ref := newC12Ref()
			for _, i := range order {
				e := evs[i]
				want := ref.apply(e.Op.Op, e.Op.ID, e.Op.Val, world.T0)
				if (e.Op.Op == "GetTokens" || e.Op.Op == "GetState") && want != e.Result {
					return false
				}
			}
			return c12OnlyEmptyDiff(final, ref.dump()) || final == ref.dump()
		}
		for i := 0; i < n; i++ {
			if used[i] {
				continue
			}
			// i may come next only if no unused j strictly precedes it in real time
			ok := true
			for j := 0; j < n; j++ {
				if j != i && !used[j] && evs[j].Ret < evs[i].Call {
					ok = false
					break
				}
				if j != i && !used[j] && evs[j].Thread == evs[i].Thread && j < i && evs[j].Call <= evs[i].Call {
					ok = false
					break
				}
			}
			if !ok {
				continue
			}
			used[i] = true
			order = append(order, i)
			if rec() {
				return true
			}
			order = order[:len(order)-1]
			used[i] = false
		}
		return false
	}
	return rec()
}

func c12ConcScenarios(tier string) []schedx.Scenario {
	st := func(id, v string) c12Op { return c12Op{"SetTokens", id, v} }
	gt := func(id string) c12Op { return c12Op{"GetTokens", id, ""} }
	ss := func(id, v string) c12Op { return c12Op{"SetState", id, v} }
	gs := func(id string) c12Op { return c12Op{"GetState", id, ""} }
	cl := func(id string) c12Op { return c12Op{"Clear", id, ""} }
	rm := func(id string) c12Op { return c12Op{"Remove", id, ""} }
	scs := []schedx.Scenario{
		c12ConcScenario("set-tokens||set-state same id (first write creates)", [][]c12Op{{st("a", "full"), gs("a")}, {ss("a", "w1"), gt("a")}}, -1),
		c12ConcScenario("set||remove||get", [][]c12Op{{st("a", "full"), gt("a")}, {rm("a"), gt("a")}}, -1),
		c12ConcScenario("clear||set-state||set-tokens", [][]c12Op{{ss("a", "w1"), cl("a")}, {st("a", "no-access"), gs("a")}}, -1),
		c12ConcScenario("two ids", [][]c12Op{{st("a", "full"), st("b", "full")}, {gt("b"), gt("a")}}, -1),
		c12ConcScenario("3 threads a,a,b", [][]c12Op{{st("a", "full")}, {ss("a", "w2"), gt("a")}, {st("b", "zero-expiry"), rm("a")}}, 3),
	}
	if tier == "thorough" {
		scs = append(scs,
			c12ConcScenario("3 threads creators", [][]c12Op{{st("a", "full"), gs("a")}, {ss("a", "w1"), gt("a")}, {ss("a", "w2"), gt("a")}}, -1),
			c12ConcScenario("3 threads remove/clear", [][]c12Op{{ss("a", "w1"), st("a", "full")}, {cl("a"), gt("a")}, {rm("a"), gs("a")}}, -1),
		)
	}
	return scs
}

func c12Run(run *ev.Run) {
	run.Rule = "sequential: BFS over all sequences of {SetTokens(4 shapes), GetTokens, SetState(2 values), GetState, Clear, Remove} x ids {a,b}, every Redis operation routed to either of two redisStore instances on one server, plus clock advances; each step applied to the real memory store, the real Redis store and a plain-map reference, results and whole content compared; concurrent: all interleavings of 2-3 threads x 1-2 operations on colliding ids at every lock operation of the memory store, each complete history checked for linearizability against the reference by brute force; class = (operation, found) and distinct concurrent observation logs"
	run.Assumptions = []string{
		"session time-outs are 0 here: expiry (and 'creation time fixed by the first write', observed through expiry) is decided by C10",
		"not compared: error returned by Clear on an absent id; an empty session object kept by the memory store (not observable through the interface)",
		"'longer ones randomly' is not claimed (sampling)",
	}
	// (the small search first: a deadline cuts the big one, not this)
	// with an absolute time-out of 5 s: expiry, re-creation under the same id, creation time across replicas
	// ... and with both time-outs (absolute 11 s, idle 5 s, steps of 2 s): a session that is used often enough lives
	// until the absolute limit and not a step longer or shorter, on every replica
	mi := c12ModelI(run, 11, 5)
	mi.MaxDepth = 9
	if run.Tier == "thorough" {
		mi.MaxDepth = 12
	}
	si := seqx.Explore(run, mi)
	if !si.Complete {
		run.Cap(fmt.Sprintf("sequential search with both time-outs stopped at depth %d", si.DepthDone))
	}
	run.Extra["sequential_levels_abs11_idle5"] = si.LevelSizes
	ma := c12Model(run, 5)
	ma.MaxDepth = 9
	if run.Tier == "thorough" {
		ma.MaxDepth = 12
	}
	sa := seqx.Explore(run, ma)
	if !sa.Complete {
		run.Cap(fmt.Sprintf("sequential search with absolute time-out stopped at depth %d", sa.DepthDone))
	}
	run.Extra["sequential_levels_abs5"] = sa.LevelSizes
	run.States, run.Transitions, run.Traces = sa.States+si.States, sa.Transitions+si.Transitions, sa.Histories+si.Histories
	m := c12Model(run, 0)
	m.MaxDepth = 7
	if run.Tier == "thorough" {
		m.MaxDepth = 10
	}
	st := seqx.Explore(run, m)
	if !st.Complete {
		run.Cap(fmt.Sprintf("sequential search stopped at depth %d", st.DepthDone))
	}
	run.Extra["sequential_levels"] = st.LevelSizes
	run.States += st.States
	run.Transitions += st.Transitions
	run.Traces += st.Histories
	for _, sc := range c12ConcScenarios(run.Tier) {
		cs := schedx.Explore(run, "C12", sc)
		run.Traces += cs.Schedules
		run.Transitions += cs.Points
		run.States += int64(len(cs.Distinct))
		run.Extra["schedules "+sc.Name] = cs.Schedules
		run.Extra["distinct outcomes "+sc.Name] = len(cs.Distinct)
		if !cs.Complete {
			run.Cap("concurrent scenario not completed: " + sc.Name)
		}
		if len(cs.Distinct) < 2 && cs.Complete {
			run.HarnessError("vacuous concurrent scenario (one outcome): " + sc.Name)
		}
	}
	run.Evals = run.Transitions
}

func c12ReplayFn(path string) int {
	var rp schedx.Replay
	if _, err := loadReplay(path, &rp); err == nil && rp.Scenario != "" {
		for _, sc := range c12ConcScenarios("thorough") {
			if sc.Name == rp.Scenario {
				obs, v, err := schedx.ReplayOnce(sc, rp.Choices)
				if err != nil {
					fmt.Println(err)
					return 2
				}
				return replayVerdict("C12", len(v) > 0, obs)
			}
		}
		return 2
	}
	var sr c12Replay
	if _, err := loadReplay(path, &sr); err != nil {
		fmt.Println(err)
		return 2
	}
	run := ev.NewRun("C12", "replay", "/nonexistent")
	s := seqx.Replay(c12ModelI(run, sr.Abs, sr.Idle), sr.History)
	s.Close()
	return replayVerdict("C12", run.Violations() > 0, "")
}

func init() { Registry["C12"] = Prop{Run: c12Run, Replay: c12ReplayFn} }

package props

import (
	"fmt"
	"sort"
	"strings"
	"sync"
	"sync/atomic"
	"unicode/utf8"

	"github.com/istio-ecosystem/authservice/zzverif/ev"
	"github.com/istio-ecosystem/authservice/zzverif/par"
	"github.com/istio-ecosystem/authservice/zzverif/seqx"
	"github.com/istio-ecosystem/authservice/zzverif/world"
)

// C13: redirects are well-formed and restore the originally requested URL.

type c13Case struct {
	ClientID string   `json:"client_id"`
	Scopes   []string `json:"scopes"`
	Callback string   `json:"callback_uri"`
	Authz    string   `json:"authorization_uri"`
	Target   string   `json:"target"`
	Host     string   `json:"host"`
	Scheme   string   `json:"scheme"`
	Store    string   `json:"store"`
	// Noise: the request also carries the headers proxies in front of Envoy add, all contradicting the request's own
	// scheme / host / path attributes (which are what "first requested" means)
	Noise bool `json:"noise,omitempty"`
	// Debug: evaluated with log_level all:debug
	Debug bool `json:"debug_logging,omitempty"`
}

// c13Noise builds headers that contradict the attributes of a request with the given scheme.
func c13Noise(scheme string) map[string]string {
	other := "https"
	if scheme == "" || scheme == "https" {
		other = "http"
	}
	return map[string]string{"x-forwarded-proto": other, "x-forwarded-host": "evil.test", "x-forwarded-port": "8443", "x-forwarded-for": "10.0.0.1",
		"forwarded": "for=10.0.0.1;host=evil.test;proto=" + other, "x-envoy-original-path": "/evil?x=1", "x-original-url": "/evil", "x-rewrite-url": "/evil",
		"x-forwarded-prefix": "/evil", "x-forwarded-scheme": other, "x-scheme": other, "front-end-https": "on", "x-url-scheme": other, "x-forwarded-ssl": "on",
		"x-forwarded-uri": "/evil", "referer": "https://evil.test/evil", "origin": "https://evil.test"}
}

// --- hand-written RFC 3986 splitter and decoder (deliberately not net/url) ---

type uriParts struct{ Scheme, Authority, Path, Query, Fragment string }

func splitURI(u string) (uriParts, error) {
	var p uriParts
	i := strings.Index(u, ":")
	if i <= 0 {
		return p, fmt.Errorf("no scheme in %q", u)
	}
	p.Scheme = u[:i]
	rest := u[i+1:]
	if !strings.HasPrefix(rest, "//") {
		return p, fmt.Errorf("no authority in %q", u)
	}
	rest = rest[2:]
	if j := strings.Index(rest, "#"); j >= 0 {
		p.Fragment = rest[j+1:]
		rest = rest[:j]
	}
	if j := strings.Index(rest, "?"); j >= 0 {
		p.Query = rest[j+1:]
		rest = rest[:j]
	}
	if j := strings.Index(rest, "/"); j >= 0 {
		p.Path = rest[j:]
		rest = rest[:j]
	}
	p.Authority = rest
	return p, nil
}

func hexval(c byte) int {
	switch {
	case c >= '0' && c <= '9':
		return int(c - '0')
	case c >= 'a' && c <= 'f':
		return int(c-'a') + 10
	case c >= 'A' && c <= 'F':
		return int(c-'A') + 10
	}
	return -1
}

// formDecode decodes one application/x-www-form-urlencoded component ('+' is a space).
func formDecode(s string) (string, error) {
	var b []byte
	for i := 0; i < len(s); i++ {
		switch s[i] {
		case '+':
			b = append(b, ' ')
		case '%':
			if i+2 > len(s)-1 {
				return "", fmt.Errorf("truncated escape in %q", s)
			}
			hi, lo := hexval(s[i+1]), hexval(s[i+2])
			if hi < 0 || lo < 0 {
				return "", fmt.Errorf("bad escape in %q", s)
			}
			b = append(b, byte(hi<<4|lo))
			i += 2
		default:
			b = append(b, s[i])
		}
	}
	return string(b), nil
}

// queryPairs splits a query into decoded (name, value) pairs; a pair that does not decode is kept raw.
func queryPairs(q string) ([][2]string, error) {
	var out [][2]string
	if q == "" {
		return nil, nil
	}
	for _, kv := range strings.Split(q, "&") {
		k, v, _ := strings.Cut(kv, "=")
		dk, err := formDecode(k)
		if err != nil {
			return nil, err
		}
		dv, err := formDecode(v)
		if err != nil {
			return nil, err
		}
		out = append(out, [2]string{dk, dv})
	}
	return out, nil
}

func sortedPairs(p [][2]string) []string {
	var s []string
	for _, kv := range p {
		s = append(s, kv[0]+"="+kv[1])
	}
	sort.Strings(s)
	return s
}

func c13Check(c c13Case) (sig, msg string) {
	if c.Debug {
		world.EnableDebugLogging()
	}
	spec := world.Spec{Store: c.Store, ClientID: c.ClientID, Scopes: c.Scopes, CallbackURI: c.Callback, AuthzURI: c.Authz}
	w := world.New(spec)
	defer w.Close()
	var noise map[string]string
	if c.Noise {
		noise = c13Noise(c.Scheme)
	}
	r1 := w.Do(world.Req{Path: c.Target, Host: c.Host, Scheme: c.Scheme, ExtraHeaders: noise}, world.Plan{})
	if r1.Panic != "" || r1.Err != "" {
		return "error", r1.Panic + r1.Err
	}
	if r1.OK || !world.IsRedirect(r1.HTTPStatus) || r1.Location == "" {
		return "no-redirect", fmt.Sprintf("code=%v http=%d", r1.Code, r1.HTTPStatus)
	}
	hasNoCache := func(r world.Result) bool {
		cc, pr := false, false
		for _, h := range r.Headers {
			if strings.EqualFold(h[0], "cache-control") && strings.Contains(strings.ToLower(h[1]), "no-cache") {
				cc = true
			}
			if strings.EqualFold(h[0], "pragma") && strings.Contains(strings.ToLower(h[1]), "no-cache") {
				pr = true
			}
		}
		return cc && pr
	}
	if !hasNoCache(r1) {
		return "redirect-without-no-cache where=login", fmt.Sprintf("headers %v", r1.Headers)
	}
	loc, err := splitURI(r1.Location)
	if err != nil {
		return "location-unparsable", err.Error()
	}
	ep, err := splitURI(c.Authz)
	if err != nil {
		return "harness", err.Error()
	}
	if loc.Scheme != ep.Scheme || loc.Authority != ep.Authority || loc.Path != ep.Path {
		return "location-is-not-the-authorization-endpoint own_query=" + fmt.Sprint(ep.Query != ""),
			fmt.Sprintf("Location %q splits into %+v, endpoint %+v", r1.Location, loc, ep)
	}
	// the endpoint's own parameters must be retained verbatim (raw pairs, as a multiset); what remains must decode to
	// exactly the eight protocol parameters
	var rawLoc []string
	if loc.Query != "" {
		rawLoc = strings.Split(loc.Query, "&")
	}
	var rest []string
	ownLeft := map[string]int{}
	if ep.Query != "" {
		for _, kv := range strings.Split(ep.Query, "&") {
			ownLeft[kv]++
		}
	}
	for _, kv := range rawLoc {
		if ownLeft[kv] > 0 {
			ownLeft[kv]--
			continue
		}
		rest = append(rest, kv)
	}
	for kv, n := range ownLeft {
		if n > 0 {
			return "authorization-endpoint-own-query-not-retained", fmt.Sprintf("the endpoint's own parameter %q is missing from Location %q", kv, r1.Location)
		}
	}
	got, err := queryPairs(strings.Join(rest, "&"))
	if err != nil {
		return "location-query-undecodable", err.Error()
	}
	sid := w.SessionFromSetCookie(r1)
	g := w.Store.Ghost[sid]
	if g == nil || g.State == nil {
		return "no-login-state-stored", "no authorization state under the new session"
	}
	scope := strings.Join(c.Scopes, " ")
	want := [][2]string{
		{"response_type", "code"}, {"client_id", c.ClientID}, {"redirect_uri", c.Callback},
		{"scope", scope}, {"state", g.State.State}, {"nonce", g.State.Nonce},
		{"code_challenge", s256ref(g.State.CodeVerifier)}, {"code_challenge_method", "S256"}}
	if fmt.Sprint(sortedPairs(got)) != fmt.Sprint(sortedPairs(want)) {
		return "authorization-query-mismatch own_query=" + fmt.Sprint(ep.Query != ""),
			fmt.Sprintf("Location query (without the endpoint's own pairs) decodes to %v, expected %v", sortedPairs(got), sortedPairs(want))
	}
	if !strings.Contains(" "+scope+" ", " openid ") {
		return "harness", "scope alphabet without openid"
	}
	// complete the login only for the default callback (the redirect back is what is judged)
	if c.Callback != world.CallbackURI {
		return "", ""
	}
	cb, _, err := w.IdP.Authorize(r1.Location)
	if err != nil {
		return "provider-rejects-authorization-request", err.Error()
	}
	r2 := w.Do(world.Req{Path: strings.TrimPrefix(cb, "https://app.test"), Cookie: sid, ExtraHeaders: noise}, world.Plan{})
	if r2.Panic != "" || r2.Err != "" {
		return "error", r2.Panic + r2.Err
	}
	scheme := c.Scheme
	if scheme == "" {
		scheme = "https"
	}
	host := c.Host
	if host == "" {
		host = "app.test"
	}
	wantLoc := scheme + "://" + host + c.Target
	if !world.IsRedirect(r2.HTTPStatus) || r2.Location != wantLoc {
		return "post-login-location-differs", fmt.Sprintf("Location %q (http %d), first requested %q", r2.Location, r2.HTTPStatus, wantLoc)
	}
	if !hasNoCache(r2) {
		return "redirect-without-no-cache where=post-login", fmt.Sprintf("headers %v", r2.Headers)
	}
	return "", ""
}

func s256ref(v string) string { return world.S256(v) }

func c13Run(run *ev.Run) {
	run.Rule = "full product client id x scopes x callback URI x authorization URI (with/without own query, reserved and non-ASCII characters) x requested scheme/host/target x store; one real login redirect each (and, for the default callback, the completed login) judged by a hand-written RFC 3986 splitter / form decoder; every case of the default callback once more with log_level all:debug; class = (endpoint has own query, client id, target)"
	run.Assumptions = []string{"callback matching for exotic callback URIs is not judged here (only the redirect_uri parameter is)", "'+' in a query component decodes to a space (form encoding), as an OpenID provider reads it"}
	clientIDs := []string{"cid", "c id", "a&b=c", "a+b", "%41", "ü"}
	scopes := [][]string{{"openid"}, {"openid", "e mail"}, {"a&b", "openid"}}
	callbacks := []string{world.CallbackURI, "https://h:8443/cb?x=1", "https://h/c%20b"}
	authz := []string{"https://idp.test/auth", "https://idp.test/auth?p=1", "https://idp.test/auth?p=a%20b&q=", "https://idp.test/a%20th",
		"https://idp.test/auth?tenant=acme;eu&flow=web", "https://idp.test/auth?flow=web&hint=100%", "https://idp.test/auth?a=1&a=2&b"}
	type tgt struct{ scheme, host, target string }
	targets := []tgt{{"https", "app.test", "/"}, {"https", "app.test", "/a?x=1&y=%2F"}, {"http", "app.test:8080", "/p?next=https%3A%2F%2Fe.com%2F%3Fa%3Db"},
		{"https", "app.test", "/s;v=1/@:,"}, {"https", "app.test", "/q?a=b&a=c"}, {"https", "app.test", "/q?%zz"}, {"https", "app.test", "/d%20ir/f%2Fg/100%25"}, {"https", "app.test", "/\xc3\xbc?\xff=\xfe"}}
	// the shared odd-string alphabet: as client id, as scope, inside the requested target
	for _, odd := range oddStrings {
		// (protobuf strings are valid UTF-8 and the loader refuses ':' in a client id)
		if odd != "" && !strings.Contains(odd, ":") && utf8.ValidString(odd) && !strings.ContainsAny(odd, "\x00") {
			clientIDs = append(clientIDs, "c"+odd)
		}
		if run.Tier == "thorough" {
			targets = append(targets, tgt{"https", "app.test", "/t" + odd + "?q=" + odd})
		}
	}
	targets = append(targets, tgt{"https", "app.test", "/t%2F%25%20\"';?q=%zz&r=\"&s=a;b"})
	stores := []string{"memory"}
	if run.Tier == "thorough" {
		stores = []string{"memory", "redis"}
	}
	var cases []c13Case
	for _, st := range stores {
		for _, id := range clientIDs {
			for _, sc := range scopes {
				for _, cb := range callbacks {
					for _, au := range authz {
						for _, t := range targets {
							cases = append(cases, c13Case{ClientID: id, Scopes: sc, Callback: cb, Authz: au, Target: t.target, Host: t.host, Scheme: t.scheme, Store: st})
						}
					}
				}
			}
		}
	}
	// the same with contradicting proxy headers on every request, for every target in both schemes
	for _, t := range targets {
		for _, scheme := range []string{"https", "http"} {
			for _, au := range authz[:min(2, len(authz))] {
				cases = append(cases, c13Case{ClientID: clientIDs[0], Scopes: scopes[0], Callback: world.CallbackURI, Authz: au, Target: t.target, Host: t.host, Scheme: scheme, Store: "memory", Noise: true})
				cases = append(cases, c13Case{ClientID: clientIDs[0], Scopes: scopes[0], Callback: world.CallbackURI, Authz: au, Target: t.target, Host: t.host, Scheme: scheme, Store: "memory"})
			}
		}
	}
	var evals int64
	par.For(len(cases), run.Expired, func(i int) {
		c := cases[i]
		sig, msg := c13Check(c)
		atomic.AddInt64(&evals, 1)
		if sig != "" {
			run.Violation("C13 "+sig, msg, c)
		}
		run.Class(fmt.Sprintf("ownquery=%v|cid=%s|target=%s", strings.Contains(c.Authz, "?"), c.ClientID, c.Target))
		if i%401 == 0 {
			run.Sample(c)
		}
	})
	if int(evals) != len(cases) {
		run.Cap(fmt.Sprintf("%d of %d cases", evals, len(cases)))
	}
	defer func() {
		// last, because it cannot be undone: every case of the default callback once more with log_level all:debug (set
		// up as cmd/main.go does) - what runs only at debug level must not change a redirect
		world.EnableDebugLogging()
		var dbg int64
		var dcases []c13Case
		for _, c := range cases {
			if c.Callback == world.CallbackURI && c.Store == "memory" {
				c.Debug = true
				dcases = append(dcases, c)
			}
		}
		par.For(len(dcases), run.Expired, func(i int) {
			c := dcases[i]
			sig, msg := c13Check(c)
			atomic.AddInt64(&dbg, 1)
			if sig != "" {
				run.Violation("C13 "+sig+" log=debug", msg, c)
			}
			run.Class(fmt.Sprintf("log=debug|ownquery=%v|target=%s", strings.Contains(c.Authz, "?"), c.Target))
		})
		if int(dbg) != len(dcases) {
			run.Cap(fmt.Sprintf("debug-logging pass: %d of %d cases", dbg, len(dcases)))
		}
		run.Extra["cases_with_debug_logging"] = dbg
		run.Evals += dbg
		run.States += dbg
		run.Transitions += dbg
		run.Traces += dbg
	}()
	// server level: two filters whose discovered providers coincide in all but a port / a discovery selector - the
	// login Location of a filter is ITS provider's authorization endpoint, its own query retained
	pairs := srvRunPairs(run, func(o srvPairObs, replay any) {
		if !strings.HasPrefix(o.LoginLoc, o.WantAuthz+"?") && !strings.HasPrefix(o.LoginLoc, o.WantAuthz+"&") {
			run.Violation("C13 location-is-not-the-authorization-endpoint server-pair", fmt.Sprintf("%s, filter %s used first: the login redirect of filter %s goes to %q, its provider's authorization endpoint is %q",
				o.Pair, o.First, o.Second.Name, o.LoginLoc, o.WantAuthz), replay)
		}
	})
	evals += pairs
	// histories: sessions superseded by requests for other URLs (pending / stale / attacker-chosen cookies)
	var hs seqx.Stats
	for _, st := range stores {
		spec := world.Spec{Store: st}
		o := hOpts{Spec: spec, ExtraPaths: true, Attacker: true, MaxSessions: 4}
		m := o.model(c13HistoryMonitor(run, spec))
		m.MaxDepth = 5
		x := seqx.Explore(run, m)
		hs.States += x.States
		hs.Transitions += x.Transitions
		hs.Histories += x.Histories
		if !x.Complete {
			run.Cap("history part not completed")
		}
	}
	run.Evals, run.States, run.Transitions, run.Traces = evals+hs.Transitions, evals+hs.States, evals*2+hs.Transitions, evals+hs.Histories
}

// c13HistoryMonitor: in histories where sessions are superseded (a pending or stale cookie presented on another URL),
// the Location after a successful login must be the URL of the request that created THAT session.
func c13HistoryMonitor(run *ev.Run, spec world.Spec) hMonitor {
	created := map[*world.World]map[string]string{}
	var mu sync.Mutex
	return func(h *hSys, o *hObs, hist []seqx.Event) {
		w := h.W
		full := c01Replay{Spec: spec, History: append(append([]seqx.Event{}, hist...), o.Event)}
		_ = created
		_ = &mu
		// which request created which session: recomputed from the spy log (SetAuthorizationState carries the URL the
		// service stored; the reference is the URL of the request during which that id was issued)
		if o.AuthzLoc != "" {
			if ns := w.SessionFromSetCookie(o.Res); ns != "" {
				want := "https://app.test" + o.Req.Path
				if g := w.Store.Ghost[ns]; g != nil && g.State != nil && g.State.RequestedURL != want {
					run.Violation("C13 stored-requested-url-is-not-this-sessions-first-request", fmt.Sprintf("session created by a request for %q stores %q as the URL to return to", want, g.State.RequestedURL), full)
				}
				if !hasNoCacheHeaders(o.Res) {
					run.Violation("C13 redirect-without-no-cache where=login", fmt.Sprintf("headers %v", o.Res.Headers), full)
				}
			}
			run.Class("history|login-redirect|" + o.Req.Path)
			return
		}
		if strings.HasPrefix(o.Req.Path, "/callback") && world.IsRedirect(o.Res.HTTPStatus) && o.PreGhost != nil && o.PreGhost.State != nil && len(o.TokenReqs) > 0 {
			run.Class("history|post-login-redirect")
			if o.Res.Location != o.PreGhost.State.RequestedURL {
				run.Violation("C13 post-login-location-differs", fmt.Sprintf("Location %q, stored requested URL %q", o.Res.Location, o.PreGhost.State.RequestedURL), full)
			}
		}
	}
}

func hasNoCacheHeaders(r world.Result) bool {
	cc, pr := false, false
	for _, h := range r.Headers {
		if strings.EqualFold(h[0], "cache-control") && strings.Contains(strings.ToLower(h[1]), "no-cache") {
			cc = true
		}
		if strings.EqualFold(h[0], "pragma") && strings.Contains(strings.ToLower(h[1]), "no-cache") {
			pr = true
		}
	}
	return cc && pr
}

func c13ReplayFn(path string) int {
	var hr c01Replay
	if _, err := loadReplay(path, &hr); err == nil && len(hr.History) > 0 {
		run := ev.NewRun("C13", "replay", "/nonexistent")
		o := hOpts{Spec: hr.Spec, ExtraPaths: true, Attacker: true}
		s := seqx.Replay(o.model(c13HistoryMonitor(run, hr.Spec)), hr.History)
		s.Close()
		return replayVerdict("C13", run.Violations() > 0, "")
	}
	var c c13Case
	if _, err := loadReplay(path, &c); err != nil {
		fmt.Println(err)
		return 2
	}
	sig, msg := c13Check(c)
	return replayVerdict("C13", sig != "", sig+": "+msg)
}

func init() { Registry["C13"] = Prop{Run: c13Run, Replay: c13ReplayFn} }

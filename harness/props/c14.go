package props

import (
	"encoding/base64"
	"encoding/hex"
	"fmt"
	"net/url"
	"strings"

	"github.com/istio-ecosystem/authservice/zzverif/ev"
	"github.com/istio-ecosystem/authservice/zzverif/seqx"
	"github.com/istio-ecosystem/authservice/zzverif/world"
)

// C14: no credential reaches the user agent.

// encodingsOf returns the substrings whose presence in a response proves that marker m occurs in it in one of
// the encodings the service could apply: raw, query-/path-escaped, hex, base64 (std/url) at all three alignments.
func encodingsOf(m string) map[string]string {
	out := map[string]string{"raw": m}
	if q := url.QueryEscape(m); q != m {
		out["query-escaped"] = q
	}
	if q := url.PathEscape(m); q != m {
		out["path-escaped"] = q
	}
	out["hex"] = hex.EncodeToString([]byte(m))
	for _, enc := range []struct {
		n string
		e *base64.Encoding
	}{{"base64", base64.StdEncoding}, {"base64url", base64.URLEncoding}} {
		for a := 0; a < 3; a++ {
			s := enc.e.EncodeToString([]byte(strings.Repeat("\x00", a) + m + "\x00\x00\x00"))
			skip := []int{0, 2, 3}[a]
			// drop the characters influenced by the padding bytes on both sides
			end := len(s) - 6
			if end > skip+8 {
				out[fmt.Sprintf("%s@%d", enc.n, a)] = s[skip:end]
			}
		}
	}
	return out
}

type c14Secret struct{ Kind, Value string }

func c14Secrets(w *world.World) []c14Secret {
	ss := []c14Secret{{"client-secret", w.Cfg.GetClientSecret()}}
	for _, g := range w.Gen.Issued {
		if strings.HasPrefix(g, "verifier") {
			ss = append(ss, c14Secret{"pkce-verifier", g})
		}
	}
	for _, gs := range w.Store.Ghost {
		if gs.State != nil && gs.State.CodeVerifier != "" {
			ss = append(ss, c14Secret{"pkce-verifier", gs.State.CodeVerifier})
		}
	}
	for t, is := range w.IdP.Issued {
		ss = append(ss, c14Secret{is.Kind + "-token", t})
	}
	return ss
}

func c14Serialise(r world.Result) string {
	var sb strings.Builder
	fmt.Fprintf(&sb, "msg=%s\nstatus=%d\nbody=%s\n", r.Message, r.HTTPStatus, r.Body)
	for _, h := range r.Headers {
		fmt.Fprintf(&sb, "%s: %s\n", h[0], h[1])
	}
	return sb.String()
}

func c14Monitor(run *ev.Run, spec world.Spec) hMonitor {
	viol := func(sig, msg string, hist []seqx.Event, e seqx.Event) {
		full := append(append([]seqx.Event{}, hist...), e)
		run.Violation("C14 "+sig, msg, c01Replay{Spec: spec, History: full})
	}
	return func(h *hSys, o *hObs, hist []seqx.Event) {
		w := h.W
		if o.Res.Panic != "" {
			run.Incident("panic (C15's subject): " + firstLine(o.Res.Panic))
			return
		}
		if o.Res.Crashed {
			return
		}
		fault := ""
		for _, c := range o.Calls {
			if c.Fault != "" {
				fault = c.Kind + ":" + c.Method
			}
		}
		ans := ""
		if o.Event.Plan != nil && o.Event.Plan.Answer != nil {
			ans = o.Event.Plan.Answer.Name
		}
		if o.Res.OK {
			allowed := map[string]bool{w.Cfg.GetIdToken().GetHeader(): true}
			if w.Cfg.GetAccessToken() != nil {
				allowed[w.Cfg.GetAccessToken().GetHeader()] = true
			}
			for _, hv := range o.Res.Headers {
				if !allowed[hv[0]] {
					viol("ok-adds-unexpected-header name="+hv[0], "OK answer adds header "+hv[0], hist, o.Event)
				}
				// the refresh token / client secret / verifier must not travel upstream either
				for _, s := range c14Secrets(w) {
					if s.Kind == "id-token" || s.Kind == "access-token" {
						continue
					}
					if strings.Contains(hv[1], s.Value) {
						viol("ok-forwards-"+s.Kind, "OK answer forwards a "+s.Kind+" upstream in "+hv[0], hist, o.Event)
					}
				}
			}
			if ok := o.Res.Raw.GetOkResponse(); ok != nil && (len(ok.HeadersToRemove) > 0 || len(ok.QueryParametersToSet) > 0 ||
				len(ok.QueryParametersToRemove) > 0 || len(ok.ResponseHeadersToAdd) > 0 || ok.DynamicMetadata != nil) {
				viol("ok-extra-mutations", "OK answer mutates more than the token headers", hist, o.Event)
			}
			if o.Res.Raw.GetDynamicMetadata() != nil {
				viol("ok-dynamic-metadata", "OK answer carries dynamic metadata", hist, o.Event)
			}
			return
		}
		ser := c14Serialise(o.Res)
		run.Class(fmt.Sprintf("deny|code=%v|http=%d|fault=%s|idp=%s", o.Res.Code, o.Res.HTTPStatus, fault, ans))
		for _, s := range c14Secrets(w) {
			for encName, needle := range encodingsOf(s.Value) {
				if strings.Contains(ser, needle) {
					viol(fmt.Sprintf("leak secret=%s encoding=%s where=%s", s.Kind, strings.Split(encName, "@")[0], c14Where(o.Res, needle)),
						fmt.Sprintf("denied answer (code %v) contains the %s in %s encoding", o.Res.Code, s.Kind, encName), hist, o.Event)
				}
			}
		}
		// client_id:secret as used for Basic authentication
		for encName, needle := range encodingsOf(w.Cfg.GetClientId() + ":" + w.Cfg.GetClientSecret()) {
			if strings.Contains(ser, needle) {
				viol("leak secret=basic-credentials encoding="+strings.Split(encName, "@")[0], "denied answer contains client_id:client_secret", hist, o.Event)
			}
		}
	}
}

func c14Where(r world.Result, needle string) string {
	switch {
	case strings.Contains(r.Body, needle):
		return "body"
	case strings.Contains(r.Message, needle):
		return "status-message"
	}
	for _, h := range r.Headers {
		if strings.Contains(h[1], needle) || strings.Contains(h[0], needle) {
			return "header:" + strings.ToLower(h[0])
		}
	}
	return "?"
}

func c14Opts(tier string, spec world.Spec) hOpts {
	o := c01Opts(tier, spec)
	o.NearMiss = true
	o.Replays = true
	o.BadIdP = append(o.BadIdP, world.Answer{Name: "http400", Status: 400}, world.Answer{Name: "aud-foreign", Evil: "aud-other"},
		world.Answer{Name: "raw-garbage", UseRaw: true, RawBody: "{not json"},
		// answers that carry real tokens but do not decode as a token response (numeric corners of expires_in): whatever
		// the service says about them, it must not quote them
		world.Answer{Name: "tokens+expires_in-string", ExpiresInRaw: `"3600"`}, world.Answer{Name: "tokens+expires_in-float", ExpiresInRaw: `3599.5`},
		world.Answer{Name: "tokens+expires_in-huge", ExpiresInRaw: `1e30`})
	o.GoodIdP = append(o.GoodIdP, world.Answer{Name: "keep-rt", KeepRT: true})
	o.MaxSessions = 2
	if tier == "thorough" {
		o.MaxSessions = 3
		o.Pairs = false
		o.MaxDev = 1
	}
	return o
}

func c14Run(run *ev.Run) {
	run.Rule = "the union of the C01/C04/C11 alphabets (requests, near-miss and replayed callbacks, clock, honest and failing provider answers, every single environment fault) explored breadth-first on the real handler; every denied answer is serialised (status message, HTTP status, header names and values, body) and searched for every secret minted so far (client secret, each PKCE verifier, each refresh/access/ID token, client_id:secret) raw, query/path-escaped, hex and base64 (std/url, three alignments); every OK answer may add only the configured token headers; class = (code, http status, fault, provider answer)"
	run.Assumptions = []string{"state, nonce and the S256 challenge are public by protocol", "log output is not part of an answer"}
	depth := 5
	if run.Tier == "thorough" {
		depth = 6
	}
	var total seqx.Stats
	defer debugLogTail(run, 4, func(s world.Spec) seqx.Model { return c14Opts("quick", s).model(c14Monitor(run, s)) },
		world.Spec{Store: "memory", Forward: true, Logout: true}, world.Spec{Store: "redis", Forward: true, Logout: true})
	for i, spec := range []world.Spec{{Store: "memory", Forward: true, Logout: true}, {Store: "redis", Forward: true, Logout: true},
		{Store: "memory", Forward: true, Logout: true, Discovery: true, NoLogoutRedirect: true}, {Store: "memory", Logout: true, Discovery: true},
		{Store: "memory", Forward: true, Logout: true, Discovery: true, RichDiscovery: true}} {
		o := c14Opts(run.Tier, spec)
		if spec.Discovery {
			// discovery worlds: the plain alphabet (no faults), one level deeper is not needed: login, use, logout
			o.Faults, o.BadIdP, o.NearMiss, o.Replays, o.MaxDev = false, nil, false, false, 0
		}
		m := o.model(c14Monitor(run, spec))
		m.MaxDepth = depth
		if run.Tier == "thorough" {
			m.CheckMerges = -1 // the thorough search fills its time budget without the merge check (quick runs it)
		}
		st := seqx.Explore(run, m)
		total.States += st.States
		total.Transitions += st.Transitions
		total.Histories += st.Histories
		total.Replayed += st.Replayed
		if !st.Complete {
			run.Cap(fmt.Sprintf("spec %d: search stopped at depth %d of %d", i, st.DepthDone, depth))
		}
		run.Extra[fmt.Sprintf("levels_spec%d", i)] = st.LevelSizes
	}
	srv := c14ServerLevel(run)
	run.Extra["server_level_requests"] = srv
	run.States, run.Transitions, run.Traces, run.Evals = total.States, total.Transitions+srv, total.Histories+srv, total.Transitions+srv
	run.Extra["replayed_events"] = total.Replayed
	run.Extra["depth"] = depth
}

// c14ServerLevel: the assembled service with mock filters around the OIDC filter in the chain (what a later filter
// of the chain decides must not move what the OIDC filter prepared for upstream into an answer for the browser).
func c14ServerLevel(run *ev.Run) int64 {
	var n int64
	for _, shape := range []struct{ before, after []bool }{{nil, []bool{false}}, {nil, []bool{true, false}}, {[]bool{true}, []bool{false}}, {[]bool{true}, []bool{true}}} {
		for _, fwd := range []bool{true, false} {
			f := world.FilterSpec{Name: "a", Realm: "idp-a.test", ClientID: "client-a", Secret: "SEKRET-of-filter-a", CookiePrefix: "pa", Forward: fwd, Logout: true,
				MocksBefore: shape.before, MocksAfter: shape.after}
			sw, err := world.NewSWorld([]world.FilterSpec{f}, nil)
			if err != nil {
				run.HarnessError("C14 server-level world: " + err.Error())
				return n
			}
			sid, name, err := sw.Login(f)
			if err != nil {
				run.HarnessError("C14 server-level login: " + err.Error())
				sw.Close()
				return n
			}
			idp := sw.Realms[f.Realm]
			for _, req := range []world.SReq{
				{Tenant: "a", Path: "/a/app", Cookies: map[string]string{name: sid}},
				{Tenant: "a", Path: "/a/app?x=1", Cookies: map[string]string{name: sid}},
				{Tenant: "a", Path: "/a/callback?code=x&state=y", Cookies: map[string]string{name: sid}},
				{Tenant: "a", Path: sw.LogoutPath(f), Cookies: map[string]string{name: sid}},
			} {
				r := sw.Do(req)
				n++
				run.Class(fmt.Sprintf("server|before=%v|after=%v|fwd=%v|ok=%v|http=%d", shape.before, shape.after, fwd, r.OK, r.HTTPStatus))
				if r.OK {
					continue
				}
				ser := c14Serialise(r)
				secrets := []c14Secret{{"client-secret", f.Secret}}
				for t, is := range idp.Issued {
					secrets = append(secrets, c14Secret{is.Kind + "-token", t})
				}
				for _, s := range secrets {
					for encName, needle := range encodingsOf(s.Value) {
						if strings.Contains(ser, needle) {
							run.Violation(fmt.Sprintf("C14 leak secret=%s encoding=%s where=%s chain=mocks-around-oidc", s.Kind, strings.Split(encName, "@")[0], c14Where(r, needle)),
								fmt.Sprintf("chain [mocks %v, oidc, mocks %v]: the denied answer (code %v, http %d) to %s contains the %s", shape.before, shape.after, r.Code, r.HTTPStatus, req.Path, s.Kind),
								map[string]any{"level": "server", "filter": f, "request": req})
						}
					}
				}
			}
			sw.Close()
		}
	}
	// two chains of one application (one client registration, one callback) that differ in access-token forwarding:
	// whichever is used first, an OK of the chain without forwarding adds the ID token header and nothing else
	for _, firstFwd := range []bool{true, false} {
		a := world.FilterSpec{Name: "api", Realm: "idp-a.test", ClientID: "client-a", Secret: "SEKRET-of-filter-a", Forward: true, Logout: true, Callback: "https://app.test/cb"}
		b := world.FilterSpec{Name: "web", Realm: "idp-a.test", ClientID: "client-a", Secret: "SEKRET-of-filter-a", Forward: false, Logout: true, Callback: "https://app.test/cb"}
		sw, err := world.NewSWorld([]world.FilterSpec{a, b}, nil)
		if err != nil {
			run.HarnessError("C14 server-level pair: " + err.Error())
			return n
		}
		first, second := a, b
		if !firstFwd {
			first, second = b, a
		}
		sw.Do(world.SReq{Tenant: first.Name, Path: "/" + first.Name + "/app"})
		for _, f := range []world.FilterSpec{second, first} {
			sid, name, err := sw.Login(f)
			if err != nil {
				run.HarnessError("C14 server-level pair login at " + f.Name + ": " + err.Error())
				break
			}
			r := sw.Do(world.SReq{Tenant: f.Name, Path: "/" + f.Name + "/app", Cookies: map[string]string{name: sid}})
			n++
			run.Class(fmt.Sprintf("server-pair|first=%s|probe=%s|ok=%v|headers=%d", first.Name, f.Name, r.OK, len(r.Headers)))
			if !r.OK {
				continue
			}
			for _, hv := range r.Headers {
				allowed := strings.EqualFold(hv[0], "authorization") || (f.Forward && strings.EqualFold(hv[0], "x-access-token"))
				if !allowed {
					run.Violation("C14 ok-adds-unexpected-header name="+strings.ToLower(hv[0])+" server-pair",
						fmt.Sprintf("chains api (forwards the access token) and web (does not), %s used first: an OK of chain %s adds header %s", first.Name, f.Name, hv[0]),
						map[string]any{"level": "server-pair", "first": first.Name, "probe": f.Name})
				}
			}
		}
		sw.Close()
	}
	return n
}

func c14ReplayFn(path string) int {
	var rp c01Replay
	if _, err := loadReplay(path, &rp); err != nil {
		fmt.Println(err)
		return 2
	}
	run := ev.NewRun("C14", "replay", "/nonexistent")
	m := c14Opts("thorough", rp.Spec).model(c14Monitor(run, rp.Spec))
	s := seqx.Replay(m, rp.History)
	s.Close()
	return replayVerdict("C14", run.Violations() > 0, "")
}

func init() { Registry["C14"] = Prop{Run: c14Run, Replay: c14ReplayFn} }

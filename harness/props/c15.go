package props

import (
	"context"
	"encoding/json"
	"fmt"
	"runtime"
	"sort"
	"strings"
	"sync/atomic"
	"time"

	envoy "github.com/envoyproxy/go-control-plane/envoy/service/auth/v3"

	configv1 "github.com/istio-ecosystem/authservice/config/gen/go/v1"
	oidcv1 "github.com/istio-ecosystem/authservice/config/gen/go/v1/oidc"
	"github.com/istio-ecosystem/authservice/internal/oidc"
	"github.com/istio-ecosystem/authservice/internal/server"
	"github.com/istio-ecosystem/authservice/zzverif/ev"
	"github.com/istio-ecosystem/authservice/zzverif/par"
	"github.com/istio-ecosystem/authservice/zzverif/schedx"
	"github.com/istio-ecosystem/authservice/zzverif/world"
)

// C15: no request, IdP answer or store answer can crash a check.

type c15Case struct {
	Group    string            `json:"group"` // request | token-answer | jwks | store
	Pre      string            `json:"pre_state"`
	Path     string            `json:"path,omitempty"`
	Shape    string            `json:"shape,omitempty"`
	Cookie   string            `json:"cookie,omitempty"`
	Host     string            `json:"host,omitempty"`
	Status   int               `json:"status,omitempty"`
	Body     string            `json:"body,omitempty"`
	Members  map[string]string `json:"members,omitempty"` // member -> variant name
	JWKS     string            `json:"jwks,omitempty"`
	StoreMod string            `json:"store_mod,omitempty"`
	Store    string            `json:"store,omitempty"`
	Level    string            `json:"level,omitempty"` // process | check
	Doc      int               `json:"doc,omitempty"`      // discovery: index into world.OddDiscoveryDocs()
	DocName  string            `json:"doc_name,omitempty"`
	CancelAt int               `json:"cancel_at,omitempty"`   // cancel: environment call of the check at which the caller gives up
	CancelHow string           `json:"cancel_how,omitempty"`  // cancel (before the call) | cancel-after (after its effect)
}

// panicSite extracts the innermost frame inside the repository's own packages from a stack dump.
func panicSite(stack string) string {
	for _, ln := range strings.Split(stack, "\n") {
		if strings.HasPrefix(ln, "github.com/istio-ecosystem/authservice/internal") && !strings.Contains(ln, "zzverif") {
			fn := ln
			if i := strings.LastIndex(fn, "("); i > 0 {
				fn = fn[:i]
			}
			return strings.TrimPrefix(fn, "github.com/istio-ecosystem/authservice/internal/")
		}
	}
	return "outside-repo-frames"
}

// c15Prepare brings a world into the named pre-state and returns the session cookie.
func c15Prepare(w *world.World, pre string) string {
	if pre == "none" {
		return ""
	}
	r1 := w.Do(world.Req{Path: "/"}, world.Plan{})
	sid := w.SessionFromSetCookie(r1)
	cb, _, err := w.IdP.Authorize(r1.Location)
	if err != nil {
		panic("harness: " + err.Error())
	}
	if pre == "pending" {
		return sid
	}
	w.Do(world.Req{Path: strings.TrimPrefix(cb, "https://app.test"), Cookie: sid}, world.Plan{})
	if pre == "expired" {
		w.Advance(time.Duration(w.IdP.TokenLife+1) * time.Second)
	}
	return sid
}

func c15CallbackPath(w *world.World) string {
	c := w.IdP.Codes[len(w.IdP.Codes)-1]
	return "/callback?code=" + c.Value + "&state=" + c.Req.State
}

type c15Outcome struct {
	Panic string
	Site  string
	Bad   string // well-formedness problem
}

func c15Judge(res world.Result, level string) c15Outcome {
	if res.Panic != "" {
		return c15Outcome{Panic: res.Panic, Site: panicSite(res.Body)}
	}
	if res.Err != "" || res.Crashed {
		return c15Outcome{}
	}
	if res.WellFormed != "" {
		return c15Outcome{Bad: res.WellFormed}
	}
	if level == "process" && !res.OK && res.Raw.GetDeniedResponse() == nil {
		return c15Outcome{Bad: "non-OK status without denied body"}
	}
	if res.OK && res.Raw.GetDeniedResponse() != nil {
		return c15Outcome{Bad: "OK status with denied body"}
	}
	return c15Outcome{}
}

func c15Report(run *ev.Run, c c15Case, o c15Outcome, class string) {
	if o.Panic != "" {
		_ = class
		run.Violation(fmt.Sprintf("C15 panic at=%s group=%s", o.Site, c.Group), fmt.Sprintf("panic %q for %+v", o.Panic, c15Sample(c)), c)
	} else if o.Bad != "" {
		run.Violation(fmt.Sprintf("C15 malformed-verdict %s input=%s", o.Bad, class), fmt.Sprintf("%s for %+v", o.Bad, c), c)
	}
}

// ---- group 1: request shapes ----

func c15RawRequest(w *world.World, c c15Case, sid string) *envoy.CheckRequest {
	switch c.Shape {
	case "nil-attributes":
		return &envoy.CheckRequest{}
	case "nil-request":
		return &envoy.CheckRequest{Attributes: &envoy.AttributeContext{}}
	case "nil-http":
		return &envoy.CheckRequest{Attributes: &envoy.AttributeContext{Request: &envoy.AttributeContext_Request{}}}
	}
	path := c.Path
	if path == "{callback}" {
		if len(w.IdP.Codes) > 0 {
			path = c15CallbackPath(w)
		} else {
			path = "/callback?code=c&state=s"
		}
	}
	req := w.Envoy(world.Req{Path: path, Host: c.Host})
	h := req.Attributes.Request.Http
	name := world.CookieName("")
	switch c.Cookie {
	case "absent":
		delete(h.Headers, "cookie")
	case "session":
		if sid != "" {
			h.Headers["cookie"] = name + "=" + sid
		}
	case "session-twice":
		h.Headers["cookie"] = name + "=" + sid + "; " + name + "=other"
	case "empty-value":
		h.Headers["cookie"] = name + "="
	case "name-only":
		h.Headers["cookie"] = name
	case "big":
		h.Headers["cookie"] = name + "=" + strings.Repeat("A", 65536)
	case "quoted-session":
		h.Headers["cookie"] = name + "=\"" + sid + "\""
	case "lone-quote-session":
		h.Headers["cookie"] = name + "=\""
	default:
		h.Headers["cookie"] = c.Cookie
	}
	if c.Shape == "nil-headers" {
		h.Headers = nil
	}
	if c.Host == "{empty}" {
		h.Host = ""
	}
	return req
}

func c15RunRequest(c c15Case) c15Outcome {
	w := world.New(world.Spec{Store: "memory", Forward: true, Logout: true})
	defer w.Close()
	sid := c15Prepare(w, c.Pre)
	req := c15RawRequest(w, c, sid)
	w.Env.Faults = nil
	w.IdP.Mode = world.Honest
	if c.Level == "check" {
		return c15Judge(c15ViaCheck(w, req), "check")
	}
	return c15Judge(w.DoRaw(req), "process")
}

// c15ViaCheck sends the request through ExtAuthZFilter.Check with the world's store; trigger rules present.
func c15ViaCheck(w *world.World, req *envoy.CheckRequest) (res world.Result) {
	return c15ViaCheckCtx(w, req, false)
}

func c15ViaCheckCtx(w *world.World, req *envoy.CheckRequest, cancellable bool) (res world.Result) {
	cfg := &configv1.Config{
		Chains: []*configv1.FilterChain{{Name: "c", Filters: []*configv1.Filter{{Type: &configv1.Filter_Oidc{Oidc: w.Cfg}}}}},
		TriggerRules: []*configv1.TriggerRule{{ExcludedPaths: []*configv1.StringMatch{{MatchType: &configv1.StringMatch_Prefix{Prefix: "/public"}}}}},
	}
	f := server.NewExtAuthZFilter(cfg, w.TLSPool, w.JWKS, w.Factory)
	defer func() {
		if rec := recover(); rec != nil {
			buf := make([]byte, 8192)
			buf = buf[:runtime.Stack(buf, false)]
			res = world.Result{Panic: fmt.Sprint(rec), Body: string(buf)}
		}
	}()
	ctx := context.Background()
	if cancellable {
		var cancel context.CancelFunc
		ctx, cancel = context.WithCancel(ctx)
		defer cancel()
		w.Env.Cancel = cancel
	}
	resp, err := f.Check(ctx, req)
	if err != nil {
		return world.Result{Err: err.Error()}
	}
	return world.ParseResponse(resp)
}

// ---- group 2: token endpoint answers ----

type c15Variant struct{ Name, JSON string } // JSON == "\x00" means member absent

func c15OddToken(w *world.World, claimsMod map[string]any, del ...string) string {
	claims := map[string]any{"iss": "https://idp.test", "sub": "u", "aud": w.Cfg.GetClientId(), "exp": w.Now().Add(60 * time.Second).Unix(),
		"iat": w.Now().Unix(), "nonce": "{nonce}"}
	for k, v := range claimsMod {
		claims[k] = v
	}
	for _, d := range del {
		delete(claims, d)
	}
	return "{TOKEN}" + mustJSON(claims)
}

func mustJSON(v any) string { b, _ := json.Marshal(v); return string(b) }

func c15Members() map[string][]c15Variant {
	q := func(s string) string { return mustJSON(s) }
	odd := func(name string, mod map[string]any, del ...string) c15Variant {
		claims := map[string]any{"@mod": mod, "@del": del}
		return c15Variant{name, "{ODD}" + mustJSON(claims)}
	}
	return map[string][]c15Variant{
		"id_token": {
			{"absent", "\x00"}, {"null", "null"}, {"zero", "0"}, {"empty", q("")}, {"x", q("x")}, {"a.b.c", q("a.b.c")}, {"object", "{}"},
			odd("nonce-number", map[string]any{"nonce": 7}), odd("nonce-bool", map[string]any{"nonce": true}), odd("nonce-null", map[string]any{"nonce": nil}),
			odd("nonce-array", map[string]any{"nonce": []any{}}), odd("nonce-object", map[string]any{"nonce": map[string]any{}}),
			odd("aud-number", map[string]any{"aud": 7}), odd("aud-object", map[string]any{"aud": map[string]any{}}), odd("aud-array-number", map[string]any{"aud": []any{7}}),
			odd("aud-absent", nil, "aud"),
			odd("exp-string", map[string]any{"exp": "x"}), odd("exp-huge", map[string]any{"exp": 1e99}), odd("exp-negative", map[string]any{"exp": -1}),
			odd("exp-fraction", map[string]any{"exp": 1.5}), odd("exp-absent", nil, "exp"),
			odd("iat-string", map[string]any{"iat": "yesterday"}), odd("nbf-object", map[string]any{"nbf": map[string]any{"a": 1}}),
			odd("sub-number", map[string]any{"sub": 12}), odd("iss-array", map[string]any{"iss": []any{"a"}}),
			// tokens with the right audience and nonce that the unverified parse accepts and the key set cannot verify:
			// other serialisations of a JWT (a bare JSON claims object, a JSON-serialised JWS) and a foreign signature
			{"json-claims-object", "{ALT}claims"}, {"json-jws-flattened", "{ALT}flattened"}, {"json-jws-general", "{ALT}general"},
			{"foreign-signature", "{ALT}foreign"}, {"signature-stripped", "{ALT}stripped"},
		},
		"access_token":  {{"absent", "\x00"}, {"null", "null"}, {"zero", "0"}, {"object", "{}"}},
		"refresh_token": {{"absent", "\x00"}, {"null", "null"}, {"zero", "0"}, {"object", "{}"}},
		"expires_in": {{"absent", "\x00"}, {"null", "null"}, {"string", q("3600")}, {"huge", "1e99"}, {"negative", "-1"}, {"fraction", "1.5"},
			{"maxint64", "9223372036854775807"}, {"zero", "0"}},
		"token_type": {{"absent", "\x00"}, {"null", "null"}, {"zero", "0"}, {"bearer", q("bearer")}, {"mac", q("mac")}},
	}
}

var c15MemberOrder = []string{"id_token", "access_token", "refresh_token", "expires_in", "token_type"}

// c15Body builds the token answer for the chosen member variants (honest default elsewhere).
func c15Body(w *world.World, nonce string, members map[string]string) string {
	vars := c15Members()
	honestClaims := map[string]any{"iss": "https://idp.test", "sub": "u", "aud": w.Cfg.GetClientId(), "exp": w.Now().Add(60 * time.Second).Unix(),
		"iat": w.Now().Unix(), "nonce": nonce}
	def := map[string]string{
		"id_token": mustJSON(world.Mint(world.KeyEC, nil, honestClaims)), "access_token": `"AT-x"`, "refresh_token": `"RT-x"`, "expires_in": "60", "token_type": `"Bearer"`,
	}
	var parts []string
	for _, m := range c15MemberOrder {
		val := def[m]
		if vn, ok := members[m]; ok {
			for _, v := range vars[m] {
				if v.Name == vn {
					val = v.JSON
				}
			}
		}
		if val == "\x00" {
			continue
		}
		if strings.HasPrefix(val, "{ALT}") {
			compact := world.Mint(world.KeyEvilEC, nil, honestClaims)
			seg := strings.Split(compact, ".")
			switch val[5:] {
			case "claims":
				val = mustJSON(mustJSON(honestClaims))
			case "flattened":
				val = mustJSON(mustJSON(map[string]any{"protected": seg[0], "payload": seg[1], "signature": seg[2]}))
			case "general":
				val = mustJSON(mustJSON(map[string]any{"payload": seg[1], "signatures": []any{map[string]any{"protected": seg[0], "signature": seg[2]}}}))
			case "foreign":
				val = mustJSON(compact)
			case "stripped":
				val = mustJSON(seg[0] + "." + seg[1] + ".")
			}
		}
		if strings.HasPrefix(val, "{ODD}") {
			var spec struct {
				Mod map[string]any `json:"@mod"`
				Del []string       `json:"@del"`
			}
			_ = json.Unmarshal([]byte(val[5:]), &spec)
			claims := map[string]any{}
			for k, v := range honestClaims {
				claims[k] = v
			}
			for k, v := range spec.Mod {
				claims[k] = v
			}
			for _, d := range spec.Del {
				delete(claims, d)
			}
			val = mustJSON(world.Mint(world.KeyEC, nil, claims))
		}
		parts = append(parts, mustJSON(m)+":"+val)
	}
	return "{" + strings.Join(parts, ",") + "}"
}

func c15RunToken(c c15Case) c15Outcome {
	w := world.New(world.Spec{Store: c.Store, Forward: true, Logout: true})
	defer w.Close()
	sid := c15Prepare(w, c.Pre)
	nonce := ""
	if g := w.Store.Ghost[sid]; g != nil && g.State != nil {
		nonce = g.State.Nonce
	} else if len(w.IdP.Logins) > 0 {
		nonce = w.IdP.Logins[0].Nonce
	}
	body := c.Body
	if c.Members != nil {
		body = c15Body(w, nonce, c.Members)
	}
	ans := world.Answer{Name: "raw", UseRaw: true, RawBody: body, Status: c.Status}
	path := "/"
	if c.Pre == "pending" {
		path = c15CallbackPath(w)
	}
	res := w.Do(world.Req{Path: path, Cookie: sid}, world.Plan{Answer: &ans})
	if o := c15Judge(res, "process"); o.Panic != "" || o.Bad != "" {
		return o
	}
	// follow-up reads of whatever was stored
	for i := 0; i < 2; i++ {
		res = w.Do(world.Req{Path: "/", Cookie: sid}, world.Plan{})
		if o := c15Judge(res, "process"); o.Panic != "" || o.Bad != "" {
			o.Site += "(follow-up)"
			return o
		}
		w.Advance(61 * time.Second)
	}
	return c15Outcome{}
}

// ---- group 3: key source ----

func c15RunJWKS(c c15Case) c15Outcome {
	w := world.New(world.Spec{Store: "memory", Forward: true})
	defer w.Close()
	sid := c15Prepare(w, c.Pre)
	if c.JWKS == "{provider-error}" {
		w.Env.Faults = map[int]string{}
	} else {
		w.Cfg.JwksConfig = &oidcv1.OIDCConfig_Jwks{Jwks: c.JWKS}
	}
	path := "/"
	if c.Pre == "pending" {
		path = c15CallbackPath(w)
	}
	plan := world.Plan{}
	if c.JWKS == "{provider-error}" {
		// fail the key lookup wherever it happens in the check
		for k := 0; k < 8; k++ {
			d := world.New(world.Spec{Store: "memory", Forward: true})
			ds := c15Prepare(d, c.Pre)
			dp := "/"
			if c.Pre == "pending" {
				dp = c15CallbackPath(d)
			}
			d.Do(world.Req{Path: dp, Cookie: ds}, world.Plan{})
			idx := -1
			for i, ec := range d.Env.Calls {
				if ec.Kind == "jwks" {
					idx = i
				}
			}
			d.Close()
			if idx >= 0 {
				plan.Faults = map[int]string{idx: "before"}
			}
			break
		}
	}
	return c15Judge(w.Do(world.Req{Path: path, Cookie: sid}, plan), "process")
}

// ---- group 4: store answers ----

type oddStore struct {
	oidc.SessionStore
	mode string
}

func (s oddStore) GetTokenResponse(ctx context.Context, sid string) (*oidc.TokenResponse, error) {
	t, err := s.SessionStore.GetTokenResponse(ctx, sid)
	switch s.mode {
	case "tokens-nil-nil":
		return nil, nil
	case "tokens-value-and-error":
		return t, world.ErrInjected
	case "tokens-garbage-id":
		return &oidc.TokenResponse{IDToken: "garbage", AccessToken: "a", RefreshToken: "r"}, nil
	case "tokens-empty-struct":
		return &oidc.TokenResponse{}, nil
	}
	return t, err
}

func (s oddStore) GetAuthorizationState(ctx context.Context, sid string) (*oidc.AuthorizationState, error) {
	a, err := s.SessionStore.GetAuthorizationState(ctx, sid)
	switch s.mode {
	case "state-nil-nil":
		return nil, nil
	case "state-value-and-error":
		return a, world.ErrInjected
	case "state-empty-struct":
		return &oidc.AuthorizationState{}, nil
	}
	return a, err
}

func c15RunStore(c c15Case) c15Outcome {
	w := world.New(world.Spec{Store: c.Store, Forward: true})
	defer w.Close()
	sid := c15Prepare(w, c.Pre)
	if strings.HasPrefix(c.StoreMod, "redis:") && w.Mini != nil {
		switch strings.TrimPrefix(c.StoreMod, "redis:") {
		case "time_added-absent":
			w.Mini.HDel(sid, "time_added")
		case "time_added-garbage":
			w.Mini.HSet(sid, "time_added", "yesterday")
		case "expiry-garbage":
			w.Mini.HSet(sid, "access_token_expiry", "soon")
		case "id_token-garbage":
			w.Mini.HSet(sid, "id_token", "garbage")
		case "id_token-empty":
			w.Mini.HSet(sid, "id_token", "")
		case "wrong-type":
			w.Mini.Del(sid)
			_ = w.Mini.Set(sid, "a string, not a hash")
		case "state-partial":
			w.Mini.HDel(sid, "nonce")
		}
	} else {
		w.Store.Real = oddStore{w.Raw, c.StoreMod}
	}
	path := "/"
	if c.Pre == "pending" {
		path = c15CallbackPath(w)
	}
	res := w.Do(world.Req{Path: path, Cookie: sid}, world.Plan{})
	return c15Judge(res, "process")
}

func c15RunCase(c c15Case) c15Outcome {
	switch c.Group {
	case "request":
		return c15RunRequest(c)
	case "token-answer":
		return c15RunToken(c)
	case "jwks":
		return c15RunJWKS(c)
	case "store":
		return c15RunStore(c)
	case "discovery":
		return c15RunDiscovery(c)
	case "cancel":
		return c15RunCancel(c)
	}
	panic("unknown group")
}

// ---- group 6: the caller gives up ----

// c15RunCancel: the context of the check is cancelled at environment call CancelAt (before it / after its effect) -
// Envoy's ext_authz time-out fired, the client went away. The check must still end in a verdict or an error.
func c15RunCancel(c c15Case) c15Outcome {
	w := world.New(world.Spec{Store: c.Store, Forward: true, Logout: true})
	defer w.Close()
	sid := c15Prepare(w, c.Pre)
	path := "/"
	if c.Pre == "pending" {
		path = c15CallbackPath(w)
	}
	faults := map[int]string{c.CancelAt: c.CancelHow}
	if c.Level == "check" {
		req := w.Envoy(world.Req{Path: path, Cookie: sid})
		w.Env.Faults = faults
		w.IdP.Mode = world.Honest
		return c15Judge(c15ViaCheckCtx(w, req, true), "check")
	}
	return c15Judge(w.Do(world.Req{Path: path, Cookie: sid}, world.Plan{Faults: faults}), "process")
}

// ---- group 5: discovery documents ----

func c15RunDiscovery(c c15Case) c15Outcome {
	w := world.New(world.Spec{Store: "memory", Forward: true, Logout: true, Discovery: true, NoLogoutRedirect: true, OddDiscovery: c.Doc + 1})
	defer w.Close()
	for _, r := range []world.Req{{Path: "/"}, {Path: "/x?y=1", Cookie: "unknown"}, {Path: world.LogoutPath}, {Path: world.LogoutPath, Cookie: "unknown"},
		{Path: "/callback?code=a&state=b", Cookie: "unknown"}} {
		res := w.Do(r, world.Plan{})
		if o := c15Judge(res, "process"); o.Panic != "" || o.Bad != "" {
			return o
		}
	}
	return c15Outcome{}
}

func c15Class(c c15Case) string {
	switch c.Group {
	case "discovery":
		return "discovery " + c.DocName
	case "cancel":
		return fmt.Sprintf("cancel %s@%d pre=%s level=%s store=%s", c.CancelHow, c.CancelAt, c.Pre, c.Level, c.Store)
	case "request":
		return fmt.Sprintf("request shape=%s cookie=%s path=%s", c.Shape, c15Abbrev(c.Cookie), c15Abbrev(c.Path))
	case "token-answer":
		if c.Members != nil {
			var ks []string
			for k, v := range c.Members {
				ks = append(ks, k+"="+v)
			}
			sort.Strings(ks)
			return "token-answer " + c.Pre + " " + strings.Join(ks, ",")
		}
		return fmt.Sprintf("token-answer %s status=%d body=%s", c.Pre, c.Status, c15Abbrev(c.Body))
	case "jwks":
		return "jwks " + c15Abbrev(c.JWKS)
	}
	return "store " + c.StoreMod
}

func c15Abbrev(s string) string {
	if len(s) > 24 {
		return fmt.Sprintf("%s…(%d bytes)", s[:16], len(s))
	}
	return s
}

func c15Cases(tier string) []c15Case {
	var cs []c15Case
	pres := []string{"none", "pending", "fresh", "expired"}
	// (1) request shapes
	for _, lvl := range []string{"process", "check"} {
		for _, pre := range pres {
			for _, sh := range []string{"nil-attributes", "nil-request", "nil-http", "nil-headers"} {
				cs = append(cs, c15Case{Group: "request", Level: lvl, Pre: pre, Shape: sh, Path: "/", Cookie: "session"})
			}
			cookies := []string{"absent", "", ";", "=", "a=b=c", "name-only", "big", "\x00\x01\x7f=\xff", "session-twice", "empty-value", "session",
				`a="`, `"`, `a=""`, `a="b`, `a=b"`, `"="`, "quoted-session", "lone-quote-session", " ; ;; =;= ", "a=\"; b=\"\"; c='", "a=%zz; b=%", strings.Repeat("a=b; ", 2000)}
			hosts := []string{"{empty}", "app.test", "other.test", "[::1]:443"}
			paths := []string{"", "/", "?", "#", "/callback?%zz", "/callback?state=&code=", "/callback?state=s", "/callback?" + strings.Repeat("&", 8192),
				"{callback}", "/logout", "/logout?x=%zz", "/callback", "/callback#frag?code=a&state=b", "/public/x"}
			for _, ck := range cookies {
				for _, p := range paths {
					cs = append(cs, c15Case{Group: "request", Level: lvl, Pre: pre, Shape: "http", Path: p, Cookie: ck, Host: "app.test"})
				}
			}
			// every odd string as cookie value of the session cookie, as a foreign cookie's value, as path suffix,
			// as callback query value and as host
			for _, odd := range oddStrings {
				name := world.CookieName("")
				for _, ck := range []string{name + "=" + odd, "x=" + odd + "; " + name + "=sid", odd, name + odd} {
					cs = append(cs, c15Case{Group: "request", Level: lvl, Pre: pre, Shape: "http", Path: "/", Cookie: ck, Host: "app.test"})
				}
				for _, p := range []string{"/" + odd, "/callback?state=" + odd + "&code=" + odd, "/callback?" + odd, "/callback" + odd, "/logout" + odd, "/x?" + odd + "#" + odd} {
					cs = append(cs, c15Case{Group: "request", Level: lvl, Pre: pre, Shape: "http", Path: p, Cookie: "session", Host: "app.test"})
				}
				cs = append(cs, c15Case{Group: "request", Level: lvl, Pre: pre, Shape: "http", Path: "/", Cookie: "session", Host: "h" + odd})
			}
			for _, h := range hosts {
				for _, p := range []string{"/", "{callback}", "/logout"} {
					cs = append(cs, c15Case{Group: "request", Level: lvl, Pre: pre, Shape: "http", Path: p, Cookie: "session", Host: h})
				}
			}
		}
	}
	// (2) token answers
	bodies := []string{"", "null", "true", "0", `"s"`, "[]", "{}", `{"id_token":"abc`, strings.Repeat("[", 1<<20), `{"id_token":null}`, "\xff\xfe", `{"a":{"b":{"c":[1,2,{"d":null}]}}}`}
	stores := []string{"memory"}
	if tier == "thorough" {
		stores = append(stores, "redis")
	}
	for _, st := range stores {
		for _, pre := range []string{"pending", "expired"} {
			for _, status := range []int{200, 204, 302, 500} {
				for _, b := range bodies {
					cs = append(cs, c15Case{Group: "token-answer", Pre: pre, Status: status, Body: b, Store: st})
				}
			}
			vars := c15Members()
			type mv struct{ m, v string }
			var all []mv
			for _, m := range c15MemberOrder {
				for _, v := range vars[m] {
					all = append(all, mv{m, v.Name})
				}
			}
			// singles
			for _, a := range all {
				cs = append(cs, c15Case{Group: "token-answer", Pre: pre, Status: 200, Members: map[string]string{a.m: a.v}, Store: st})
			}
			// pairs
			for i, a := range all {
				for _, b := range all[i+1:] {
					if a.m != b.m {
						cs = append(cs, c15Case{Group: "token-answer", Pre: pre, Status: 200, Members: map[string]string{a.m: a.v, b.m: b.v}, Store: st})
					}
				}
			}
			if tier == "thorough" {
				for i, a := range all {
					for j, b := range all[i+1:] {
						for _, d := range all[i+1+j+1:] {
							if a.m != b.m && b.m != d.m && a.m != d.m {
								cs = append(cs, c15Case{Group: "token-answer", Pre: pre, Status: 200, Members: map[string]string{a.m: a.v, b.m: b.v, d.m: d.v}, Store: st})
							}
						}
					}
				}
			}
		}
	}
	// (3) key source
	for _, pre := range []string{"pending", "expired"} {
		for _, j := range []string{"", "null", "{}", `{"keys":null}`, `{"keys":[{"kty":"oct","k":"AAAA","kid":"ec1","alg":"HS256"}]}`,
			`{"keys":[{"kty":"EC"}]}`, `{"keys":[7,"x",null]}`, `{"keys":[{"kty":"RSA","n":"","e":"","kid":"ec1"}]}`, "[", "{provider-error}"} {
			cs = append(cs, c15Case{Group: "jwks", Pre: pre, JWKS: j})
		}
	}
	// (4) store answers
	for _, pre := range []string{"pending", "fresh", "expired"} {
		for _, m := range []string{"tokens-nil-nil", "tokens-value-and-error", "tokens-garbage-id", "tokens-empty-struct", "state-nil-nil", "state-value-and-error", "state-empty-struct"} {
			cs = append(cs, c15Case{Group: "store", Pre: pre, StoreMod: m, Store: "memory"})
		}
		for _, m := range []string{"time_added-absent", "time_added-garbage", "expiry-garbage", "id_token-garbage", "id_token-empty", "wrong-type", "state-partial"} {
			cs = append(cs, c15Case{Group: "store", Pre: pre, StoreMod: "redis:" + m, Store: "redis"})
		}
	}
	// (6) the caller gives up at any environment call of the check
	for _, lvl := range []string{"process", "check"} {
		for _, st := range []string{"memory", "redis"} {
			for _, pre := range []string{"none", "pending", "fresh", "expired"} {
				for k := 0; k < 8; k++ {
					for _, how := range []string{"cancel", "cancel-after"} {
						cs = append(cs, c15Case{Group: "cancel", Level: lvl, Store: st, Pre: pre, CancelAt: k, CancelHow: how})
					}
				}
			}
		}
	}
	// (5) discovery documents
	for k, d := range world.OddDiscoveryDocs() {
		cs = append(cs, c15Case{Group: "discovery", Doc: k, DocName: d.Name})
	}
	return cs
}

func c15Run(run *ev.Run) {
	run.Rule = "deviation-bounded grammars: (1) CheckRequest shapes x cookies x hosts x paths in 4 session pre-states, through Process and through ExtAuthZFilter.Check; (2) token-endpoint answers on the login and refresh paths: statuses x raw bodies, and objects whose members deviate from the honest default singly and in pairs (triples in thorough), incl. validly signed ID tokens with claims of unexpected type, each followed by two more requests; (3) key-source documents and a failing key lookup; (4) odd store answers (Redis hash fields missing/garbage/wrong type; spy answers nil/nil, value+error); (6) the caller giving up (context cancelled) at every environment call of a check, before it or after its effect, in 4 session pre-states, both stores, through Process and through Check; (5) discovery documents with one member odd (endpoints the URL parser rejects, relative, empty, with query/fragment, non-strings) or odd as a whole; everything once with the no-op loggers and once with log_level all:debug; oracle: recover() - no panic, verdict well-formed; class = distinct input class"
	run.Assumptions = []string{"coverage-guided mutation (fuzzing) is a different family and not claimed", "1 MiB is the largest body"}
	cases := c15Cases(run.Tier)
	var evals int64
	par.For(len(cases), run.Expired, func(i int) {
		c := cases[i]
		o := c15RunCase(c)
		atomic.AddInt64(&evals, 1)
		class := c15Class(c)
		c15Report(run, c, o, c15SigClass(c))
		run.Class(class)
		if i%1501 == 3 {
			run.Sample(map[string]any{"case": c15Sample(c)})
		}
	})
	if int(evals) != len(cases) {
		run.Cap(fmt.Sprintf("%d of %d cases", evals, len(cases)))
	}
	// second pass with log_level all:debug (set up as cmd/main.go does): the code that runs only at debug level - the
	// logging round tripper around every provider request, the formatting of logged values - sees every case too
	world.EnableDebugLogging()
	var evals2 int64
	par.For(len(cases), run.Expired, func(i int) {
		c := cases[i]
		o := c15RunCase(c)
		atomic.AddInt64(&evals2, 1)
		c15Report(run, c, o, c15SigClass(c)+" log=debug")
		run.Class(c15Class(c) + "|log=debug")
	})
	if int(evals2) != len(cases) {
		run.Cap(fmt.Sprintf("debug-logging pass: %d of %d cases", evals2, len(cases)))
	}
	evals += evals2
	run.Extra["cases_per_pass"] = len(cases)
	// crash freedom under interleavings: a logout or a second check on the same session racing a check whose token
	// request is refused / garbled / forged (all schedules at store-call and token-call granularity, bound 2)
	var scheds int64
	for _, sc := range c15SchedScenarios(run.Tier) {
		cs := schedx.Explore(run, "C15", sc)
		scheds += cs.Schedules
		run.Class("schedules|" + sc.Name)
		if !cs.Complete {
			run.Cap("scenario not completed: " + sc.Name)
		}
	}
	run.Extra["schedules_explored"] = scheds
	run.Evals, run.States, run.Transitions, run.Traces = evals+scheds, evals+scheds, evals*3+scheds, evals+scheds
}

func c15SchedScenarios(tier string) []schedx.Scenario {
	answers := []world.Answer{{Name: "http400", Status: 400}, {Name: "forged", Evil: "foreign-same-kid"}, {Name: "garbage", UseRaw: true, RawBody: "{"}}
	var scs []schedx.Scenario
	stores := []string{"memory"}
	if tier == "thorough" {
		stores = append(stores, "redis")
	}
	for _, st := range stores {
		for i := range answers {
			a := answers[i]
			for _, pre := range []string{"expired", "pending"} {
				scs = append(scs, c09ScenarioWith(st, pre, 1, 2, &a, true), c09ScenarioWith(st, pre, 1, 2, &a, false))
			}
		}
	}
	return scs
}

func c15Sample(c c15Case) c15Case {
	c.Body = c15Abbrev(c.Body)
	c.Path = c15Abbrev(c.Path)
	c.Cookie = c15Abbrev(c.Cookie)
	return c
}

// c15SigClass is the input class used in violation signatures: coarse enough to be stable, fine enough to
// tell different defects apart.
func c15SigClass(c c15Case) string {
	switch c.Group {
	case "request":
		return "request:" + c.Shape
	case "token-answer":
		if c.Members != nil {
			// the member variants that matter are unknown; report the lexicographically first single that panics
			var ks []string
			for k, v := range c.Members {
				ks = append(ks, k+"="+v)
			}
			sort.Strings(ks)
			return "token-answer:" + strings.Join(ks, ",")
		}
		return "token-answer:body=" + c15Abbrev(c.Body)
	case "jwks":
		return "jwks"
	case "discovery":
		return "discovery:" + c.DocName
	case "cancel":
		return fmt.Sprintf("cancel:%s@%d pre=%s", c.CancelHow, c.CancelAt, c.Pre)
	}
	return "store:" + c.StoreMod
}

func c15ReplayFn(path string) int {
	var rp schedx.Replay
	if _, err := loadReplay(path, &rp); err == nil && rp.Scenario != "" {
		for _, sc := range c15SchedScenarios("thorough") {
			if sc.Name == rp.Scenario {
				obs, v, err := schedx.ReplayOnce(sc, rp.Choices)
				if err != nil {
					fmt.Println(err)
					return 2
				}
				return replayVerdict("C15", len(v) > 0, obs)
			}
		}
		return 2
	}
	var c c15Case
	if _, err := loadReplay(path, &c); err != nil {
		fmt.Println(err)
		return 2
	}
	o := c15RunCase(c)
	return replayVerdict("C15", o.Panic != "" || o.Bad != "", fmt.Sprintf("panic=%q site=%s malformed=%q", o.Panic, o.Site, o.Bad))
}

func init() { Registry["C15"] = Prop{Run: c15Run, Replay: c15ReplayFn} }

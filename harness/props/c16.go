package props

import (
	"context"
	"crypto/tls"
	"encoding/json"
	"fmt"
	"os"
	"os/exec"
	"path/filepath"
	"regexp"
	"sort"
	"strings"
	"sync/atomic"
	"time"

	envoy "github.com/envoyproxy/go-control-plane/envoy/service/auth/v3"
	corev1 "k8s.io/api/core/v1"
	metav1 "k8s.io/apimachinery/pkg/apis/meta/v1"
	"k8s.io/apimachinery/pkg/types"
	ctrl "sigs.k8s.io/controller-runtime"
	"sigs.k8s.io/controller-runtime/pkg/client/fake"

	"github.com/alicebob/miniredis/v2"
	"google.golang.org/protobuf/types/known/durationpb"

	configv1 "github.com/istio-ecosystem/authservice/config/gen/go/v1"
	oidcv1 "github.com/istio-ecosystem/authservice/config/gen/go/v1/oidc"
	"github.com/istio-ecosystem/authservice/internal"
	"github.com/istio-ecosystem/authservice/internal/k8s"
	"github.com/istio-ecosystem/authservice/internal/oidc"
	"github.com/istio-ecosystem/authservice/internal/server"
	"github.com/istio-ecosystem/authservice/zzverif/ev"
	"github.com/istio-ecosystem/authservice/zzverif/par"
	"github.com/istio-ecosystem/authservice/zzverif/schedx"
	"github.com/istio-ecosystem/authservice/zzverif/vsched"
	"github.com/istio-ecosystem/authservice/zzverif/vtime"
	"github.com/istio-ecosystem/authservice/zzverif/world"
)

// C16: concurrent checks and background updates are free of data races (race-oracle back-end of schedx).

type c16Opts struct {
	Proxy        bool // proxy_uri configured (requests to the provider go through an HTTP proxy)
	TwoProviders bool // a second chain (x-tenant: b) with its own discovered provider
	Discovery  bool
	SecretRef  bool
	CAFile     bool
	JWKSFetch  bool
	Redis      bool
	Logout     bool
	// Idle: idle session time-out (seconds) configured on the filter; Later: the threads run this much wall-clock
	// time after the world (and its stores) were built
	Idle  int
	Later time.Duration
	// MovingDiscovery: the provider's discovery document differs at every fetch (and is served with max-age=1)
	MovingDiscovery bool
}

type c16World struct {
	opts     c16Opts
	host     string
	cfg      *configv1.Config
	oc       *oidcv1.OIDCConfig
	filter   *server.ExtAuthZFilter
	sessions oidc.SessionStoreFactoryUnit
	cancel   context.CancelFunc
	ctl      *k8s.SecretController
	caFile   string
	caFile2  string
	mini     *miniredis.Miniredis
	answers  map[string][]byte
	n        int
}

var c16Seq int64

func newC16World(o c16Opts) *c16World {
	world.InitKeys()
	world.InitPKI()
	n := atomic.AddInt64(&c16Seq, 1)
	w := &c16World{opts: o, host: fmt.Sprintf("x%d.idp.test", n), answers: map[string][]byte{}}
	scheme := "http"
	if o.CAFile {
		scheme = "https"
	}
	base := scheme + "://" + w.host
	oc := &oidcv1.OIDCConfig{
		CallbackUri: "https://app.test/callback", ClientId: "client-x", Scopes: []string{"openid"},
		IdToken:     &oidcv1.TokenConfig{Header: "authorization", Preamble: "Bearer"},
		AccessToken: &oidcv1.TokenConfig{Header: "x-access-token"},
	}
	if o.Discovery {
		oc.ConfigurationUri = base + "/.well-known/openid-configuration"
	} else {
		oc.AuthorizationUri = base + "/auth"
		oc.TokenUri = base + "/token"
		if o.JWKSFetch {
			oc.JwksConfig = &oidcv1.OIDCConfig_JwksFetcher{JwksFetcher: &oidcv1.OIDCConfig_JwksFetcherConfig{JwksUri: base + "/jwks", PeriodicFetchIntervalSec: 3600}}
		} else {
			oc.JwksConfig = &oidcv1.OIDCConfig_Jwks{Jwks: world.JWKS(world.KeyEC, world.KeyRSA)}
		}
	}
	if o.SecretRef {
		oc.ClientSecretConfig = &oidcv1.OIDCConfig_ClientSecretRef{ClientSecretRef: &oidcv1.OIDCConfig_SecretReference{Name: "s1"}}
	} else {
		oc.ClientSecretConfig = &oidcv1.OIDCConfig_ClientSecret{ClientSecret: "secret-x"}
	}
	if o.Logout {
		oc.Logout = &oidcv1.LogoutConfig{Path: "/logout", RedirectUri: base + "/logout"}
	}
	if o.Idle > 0 {
		oc.IdleSessionTimeout = uint32(o.Idle)
		oc.AbsoluteSessionTimeout = uint32(o.Idle) * 2
	}
	tlsHosts := map[string]*tls.Certificate{}
	if o.CAFile {
		w.caFile = c20TempFile(world.CA1.PEM)
		oc.TrustedCaConfig = &oidcv1.OIDCConfig_TrustedCertificateAuthorityFile{TrustedCertificateAuthorityFile: w.caFile}
		oc.TrustedCertificateAuthorityRefreshInterval = durationpb.New(time.Second)
		// the canned server presents a certificate for this host signed by CA1
		cert := world.ServerCertFor(world.CA1, w.host)
		tlsHosts[w.host] = &cert
	}
	if o.Redis {
		mr, err := miniredis.Run()
		if err != nil {
			panic(err)
		}
		w.mini = mr
		oc.RedisSessionStoreConfig = &oidcv1.RedisConfig{ServerUri: "redis://" + mr.Addr()}
	}
	w.oc = oc
	w.cfg = &configv1.Config{Chains: []*configv1.FilterChain{{Name: "c", Filters: []*configv1.Filter{{Type: &configv1.Filter_Oidc{Oidc: oc}}}}}}
	hosts := map[string]world.Responder{}
	if o.TwoProviders {
		host2 := "b-" + w.host
		oc2 := &oidcv1.OIDCConfig{
			CallbackUri: "https://app.test/b/callback", ClientId: "client-b", Scopes: []string{"openid"}, CookieNamePrefix: "b",
			IdToken:            &oidcv1.TokenConfig{Header: "authorization", Preamble: "Bearer"},
			ConfigurationUri:   "http://" + host2 + "/.well-known/openid-configuration",
			ClientSecretConfig: &oidcv1.OIDCConfig_ClientSecret{ClientSecret: "secret-b"},
		}
		if o.CAFile {
			// the second provider has a CA file (and a watcher) of its own
			w.caFile2 = c20TempFile(world.CA2.PEM)
			oc2.TrustedCaConfig = &oidcv1.OIDCConfig_TrustedCertificateAuthorityFile{TrustedCertificateAuthorityFile: w.caFile2}
			oc2.TrustedCertificateAuthorityRefreshInterval = durationpb.New(time.Second)
		}
		w.cfg.Chains = append([]*configv1.FilterChain{{Name: "b", Match: &configv1.Match{Header: "x-tenant", Criteria: &configv1.Match_Equality{Equality: "b"}},
			Filters: []*configv1.Filter{{Type: &configv1.Filter_Oidc{Oidc: oc2}}}}}, w.cfg.Chains...)
		hosts[host2] = world.CannedIdP("http://"+host2, w.answers)
	}
	ctx, cancel := context.WithCancel(context.Background())
	w.cancel = cancel
	pool := internal.NewTLSConfigPool(ctx)
	jwks := oidc.NewJWKSProvider(w.cfg, pool)
	go func() { _ = jwks.ServeContext(ctx) }()
	w.sessions = oidc.NewSessionStoreFactory(w.cfg)
	if err := w.sessions.PreRun(); err != nil {
		panic(err)
	}
	w.filter = server.NewExtAuthZFilter(w.cfg, pool, jwks, w.sessions)
	if o.SecretRef {
		kube := fake.NewClientBuilder().WithObjects(&corev1.Secret{ObjectMeta: metav1.ObjectMeta{Namespace: "default", Name: "s1"},
			Data: map[string][]byte{"client-secret": []byte("rotated-secret")}}).Build()
		ctl, err := k8s.VerifNewController(w.cfg, "default", kube)
		if err != nil {
			panic(err)
		}
		w.ctl = ctl
		// first reconcile at start-up, as the controller would deliver it
		_, _ = ctl.Reconcile(context.Background(), ctrl.Request{NamespacedName: types.NamespacedName{Namespace: "default", Name: "s1"}})
	}
	hosts[w.host] = world.CannedIdP(base, w.answers)
	if o.MovingDiscovery {
		hosts[w.host] = world.CannedIdPMoving(base, w.answers)
	}
	if o.Proxy {
		oc.ProxyUri = "http://proxy.test:3128"
		hosts["proxy.test"] = world.CannedIdP(base, w.answers) // the proxy hands the (absolute-form) request to the provider
	}
	hosts["startup.idp.test"] = world.CannedIdP("http://startup.idp.test", nil)
	world.InstallCannedNet(hosts, tlsHosts)
	// the service is fully started before the first check: one key lookup through the provider's 'started'
	// channel orders ServeContext's start-up reads of the configuration before everything the threads do
	_, _ = jwks.Get(context.Background(), &oidcv1.OIDCConfig{JwksConfig: &oidcv1.OIDCConfig_JwksFetcher{
		JwksFetcher: &oidcv1.OIDCConfig_JwksFetcherConfig{JwksUri: "http://startup.idp.test/jwks"}}})
	if o.MovingDiscovery {
		// the provider has been in use (its document is cached) before the threads start
		_, _ = w.filter.Check(context.Background(), w.prepare("nocookie", 98))
	}
	if o.CAFile && o.TwoProviders {
		// provider a has been in use (its TLS settings are loaded and its CA file is watched) before the threads start
		_, _ = w.filter.Check(context.Background(), w.prepare("nocookie", 99))
	}
	return w
}

func (w *c16World) Close() {
	w.cancel()
	if w.caFile != "" {
		os.Remove(w.caFile)
	}
	if w.caFile2 != "" {
		os.Remove(w.caFile2)
	}
	if w.mini != nil {
		w.mini.Close()
	}
}

func (w *c16World) store() oidc.SessionStore { return w.sessions.Get(w.oc) }

func (w *c16World) idToken(nonce string, exp time.Time) string {
	claims := map[string]any{"iss": "x", "sub": "u", "aud": "client-x", "exp": exp.Unix(), "iat": time.Now().Unix(), "jti": fmt.Sprintf("%s-%d", w.host, w.n)}
	w.n++
	if nonce != "" {
		claims["nonce"] = nonce
	}
	return world.Mint(world.KeyEC, nil, claims)
}

// prepare creates a session in the given pre-state by writing the store directly (no check is run, so that
// first uses of lazily built state happen inside the threads) and returns the request for it.
func (w *c16World) prepare(kind string, k int) *envoy.CheckRequest {
	ctx := context.Background()
	sid := fmt.Sprintf("sess-%s-%d", kind, k)
	path := "/app"
	cookie := "__Host-authservice-session-id-cookie=" + sid
	switch kind {
	case "nocookie", "nocookie-b", "later-nocookie":
		cookie = ""
	case "fresh":
		_ = w.store().SetTokenResponse(ctx, sid, &oidc.TokenResponse{IDToken: w.idToken("", time.Now().Add(time.Hour)), AccessToken: "at", RefreshToken: "rt-" + sid,
			AccessTokenExpiresAt: time.Now().Add(time.Hour)})
	case "refresh":
		_ = w.store().SetTokenResponse(ctx, sid, &oidc.TokenResponse{IDToken: w.idToken("", time.Now().Add(-time.Minute)), AccessToken: "at", RefreshToken: "rt-" + sid,
			AccessTokenExpiresAt: time.Now().Add(-time.Minute)})
		w.answers["rt-"+sid] = []byte(fmt.Sprintf(`{"token_type":"Bearer","id_token":%q,"access_token":"at2","refresh_token":"rt2-%s","expires_in":3600}`, w.idToken("", time.Now().Add(time.Hour)), sid))
	case "callback":
		nonce := "nonce-" + sid
		_ = w.store().SetAuthorizationState(ctx, sid, &oidc.AuthorizationState{State: "state-" + sid, Nonce: nonce, RequestedURL: "https://app.test/app", CodeVerifier: "verifier-" + sid})
		code := "code-" + sid
		w.answers[code] = []byte(fmt.Sprintf(`{"token_type":"Bearer","id_token":%q,"access_token":"at","refresh_token":"rt-%s","expires_in":3600}`, w.idToken(nonce, time.Now().Add(time.Hour)), sid))
		path = "/callback?code=" + code + "&state=state-" + sid
	case "logout":
		_ = w.store().SetTokenResponse(ctx, sid, &oidc.TokenResponse{IDToken: w.idToken("", time.Now().Add(time.Hour)), RefreshToken: "rt-" + sid})
		path = "/logout"
	}
	h := map[string]string{":authority": "app.test", ":path": path}
	if kind == "nocookie-b" {
		h["x-tenant"] = "b"
	}
	if cookie != "" {
		h["cookie"] = cookie
	}
	return &envoy.CheckRequest{Attributes: &envoy.AttributeContext{Request: &envoy.AttributeContext_Request{
		Http: &envoy.AttributeContext_HttpRequest{Id: "r", Method: "GET", Scheme: "https", Host: "app.test", Path: path, Headers: h}}}}
}

// ---- race report parsing ----

type raceReport struct {
	Text   string
	Stacks [][]string // function names, innermost first, per goroutine stack in the report (accesses first)
}

var (
	raceLogPos   = map[string]int64{}
	raceFuncLine = regexp.MustCompile(`^  ([^\s(][^\s]*)\(`)
)

func raceLogFiles() []string {
	g := os.Getenv("GORACE")
	for _, f := range strings.Fields(g) {
		if strings.HasPrefix(f, "log_path=") {
			m, _ := filepath.Glob(strings.TrimPrefix(f, "log_path=") + ".*")
			sort.Strings(m)
			return m
		}
	}
	return nil
}

func readNewRaceReports() []raceReport {
	var out []raceReport
	for _, f := range raceLogFiles() {
		b, err := os.ReadFile(f)
		if err != nil {
			continue
		}
		pos := raceLogPos[f]
		if int64(len(b)) <= pos {
			continue
		}
		chunk := string(b[pos:])
		// only consume complete reports
		last := strings.LastIndex(chunk, "==================\n")
		if last < 0 {
			continue
		}
		complete := chunk[:last+len("==================\n")]
		raceLogPos[f] = pos + int64(len(complete))
		for _, blk := range strings.Split(complete, "==================\n") {
			if !strings.Contains(blk, "WARNING: DATA RACE") {
				continue
			}
			r := raceReport{Text: blk}
			var cur []string
			inAccess := false
			for _, ln := range strings.Split(blk, "\n") {
				switch {
				case strings.HasPrefix(ln, "Write at") || strings.HasPrefix(ln, "Read at") || strings.HasPrefix(ln, "Previous write at") || strings.HasPrefix(ln, "Previous read at"):
					if cur != nil {
						r.Stacks = append(r.Stacks, cur)
					}
					cur = []string{}
					inAccess = true
				case strings.HasPrefix(ln, "Goroutine "):
					if cur != nil && inAccess {
						r.Stacks = append(r.Stacks, cur)
					}
					cur = nil
					inAccess = false
				default:
					if inAccess {
						if m := raceFuncLine.FindStringSubmatch(ln); m != nil {
							cur = append(cur, m[1])
						}
					}
				}
			}
			if cur != nil && inAccess {
				r.Stacks = append(r.Stacks, cur)
			}
			out = append(out, r)
		}
	}
	return out
}

const repoMod = "github.com/istio-ecosystem/authservice/"

// accessSite returns the function that performed the access: frame 0, or frame 1 when frame 0 is a runtime
// primitive (map, slice, string, memmove helpers) called on behalf of frame 1.
func accessSite(stack []string) string {
	for i, fn := range stack {
		if i+1 < len(stack) && isDataHelper(fn) {
			continue
		}
		return fn
	}
	return ""
}

// isDataHelper: functions that read or write memory their CALLER handed them and that keep no state of their own
// (no pools, no globals): the runtime's map/slice/string primitives and the pure helper packages of the standard
// library. An access made inside one of them is the caller's access.
func isDataHelper(fn string) bool {
	for _, p := range []string{"runtime.", "slices.", "maps.", "sort.", "strings.", "bytes.", "unicode/utf8.", "internal/bytealg."} {
		if strings.HasPrefix(fn, p) {
			return true
		}
	}
	return false
}

func cleanFn(fn string) string {
	fn = strings.TrimPrefix(fn, repoMod)
	fn = strings.TrimPrefix(fn, "internal/")
	if i := strings.Index(fn, ".func"); i > 0 {
		fn = fn[:i]
	}
	return fn
}

// classifyRace returns (signature, counts). A report counts when the access site of at least one of the two
// accesses is repository code (generated config accessors included, harness code excluded).
func classifyRace(r raceReport) (string, bool) {
	if len(r.Stacks) < 2 {
		return "race unparsed-report", true
	}
	var names [2]string
	repo := false
	for i := 0; i < 2; i++ {
		site := accessSite(r.Stacks[i])
		switch {
		case strings.HasPrefix(site, repoMod+"zzverif/"):
			names[i] = "(harness)"
		case strings.HasPrefix(site, repoMod):
			names[i] = cleanFn(site)
			repo = true
		default:
			names[i] = "(non-repository code)"
		}
	}
	if !repo {
		return "", false
	}
	a, b := names[0], names[1]
	if b < a {
		a, b = b, a
	}
	return "race " + a + " | " + b, true
}

// ---- scenarios ----

type c16Thread struct {
	Kind string
	Req  *envoy.CheckRequest
	Code string
}

func c16Scenario(name string, o c16Opts, kinds []string, bound int) schedx.Scenario {
	fp := bound >= 0
	if bound < 0 { // negative bound b means: pre-emption bound -b at lock operations only (no function-entry points)
		bound = -bound
		name += fmt.Sprintf(" [locks only, bound %d]", bound)
	}
	return schedx.Scenario{Name: name, Bound: bound, FuncPoints: fp, SyncPoints: true, DeadlockIsViolation: true, PanicIsViolation: true, OnceOnly: true,
		Setup: func() *schedx.Instance {
			vtime.SetVirtual(true)
			w := newC16World(o)
			ths := make([]*c16Thread, len(kinds))
			bodies := make([]func(), len(kinds))
			for i, k := range kinds {
				i, k := i, k
				t := &c16Thread{Kind: k}
				ths[i] = t
				switch k {
				case "reconcile":
					bodies[i] = func() {
						_, err := w.ctl.Reconcile(context.Background(), ctrl.Request{NamespacedName: types.NamespacedName{Namespace: "default", Name: "s1"}})
						t.Code = fmt.Sprint(err)
					}
				case "rotate":
					bodies[i] = func() {
						vsched.Active().Point("rotate", "ca-file")
						_ = os.WriteFile(w.caFile, []byte(world.CA1.PEM+world.CA2.PEM), 0o600)
						vtime.FireAll(time.Now())
						vsched.Quiesce()
						t.Code = "rotated"
					}
				default:
					kind := k
					if j := strings.IndexAny(k, ":@"); j >= 0 { // "fresh:same" / "logout@0" use the session of thread 0
						kind = k[:j]
					}
					if strings.HasSuffix(k, ":same") && i > 0 && ths[0].Req != nil {
						t.Req = ths[0].Req
					} else if strings.HasSuffix(k, "@0") && i > 0 {
						// a request of another kind on thread 0's session (no store preparation of its own)
						k0 := kinds[0]
						if j := strings.IndexAny(k0, ":@"); j >= 0 {
							k0 = k0[:j]
						}
						sid := fmt.Sprintf("sess-%s-%d", k0, 0)
						path := "/app"
						switch strings.TrimSuffix(k, "@0") {
						case "logout":
							path = "/logout"
						case "callback":
							path = "/callback?code=code-" + sid + "&state=state-" + sid
						}
						t.Req = &envoy.CheckRequest{Attributes: &envoy.AttributeContext{Request: &envoy.AttributeContext_Request{
							Http: &envoy.AttributeContext_HttpRequest{Id: "r", Method: "GET", Scheme: "https", Host: "app.test", Path: path,
								Headers: map[string]string{":authority": "app.test", ":path": path, "cookie": "__Host-authservice-session-id-cookie=" + sid}}}}}
					} else {
						t.Req = w.prepare(kind, i)
					}
					later := strings.HasPrefix(k, "later-")
					bodies[i] = func() {
						if later {
							vtime.Shift(time.Hour) // this request arrives an hour after the others were built and started
						}
						resp, err := w.filter.Check(context.Background(), t.Req)
						if err != nil {
							t.Code = "error:" + firstLine(err.Error())
							return
						}
						t.Code = fmt.Sprint(resp.GetStatus().GetCode())
					}
				}
			}
			if o.Later > 0 {
				vtime.Shift(o.Later) // the stores and sessions above date from "then"; the threads run "now"
			}
			return &schedx.Instance{Threads: bodies, Close: func() { w.Close(); vsched.Quiesce() },
				Finish: func(x *schedx.Exec) (string, []schedx.Violation) {
					vsched.Quiesce()
					var obs []string
					for _, t := range ths {
						obs = append(obs, t.Kind+"="+t.Code)
					}
					var viols []schedx.Violation
					for _, r := range readNewRaceReports() {
						sig, repo := classifyRace(r)
						if os.Getenv("VERIF_C16_DUMP") != "" {
							fmt.Println("RACE-REPORT counted=", repo, sig, "\n", r.Text)
						}
						if !repo {
							continue
						}
						viols = append(viols, schedx.Violation{Signature: sig, Message: "data race reported by the race runtime:\n" + r.Text})
					}
					return strings.Join(obs, " "), viols
				}}
		}}
}

func c16Scenarios(tier string) []schedx.Scenario {
	static := c16Opts{Logout: true}
	disc := c16Opts{Discovery: true, Logout: true}
	mk := func(b int) []schedx.Scenario {
		return []schedx.Scenario{
			c16Scenario("S1 static: nocookie||fresh", static, []string{"nocookie", "fresh"}, b),
			c16Scenario("S1 static: callback||refresh", static, []string{"callback", "refresh"}, b),
			c16Scenario("S1 static: fresh||fresh same session", static, []string{"fresh", "fresh:same"}, b),
			c16Scenario("S1 static: refresh||refresh same session", static, []string{"refresh", "refresh:same"}, b),
			c16Scenario("S1 static: callback||callback same session", static, []string{"callback", "callback:same"}, b),
			c16Scenario("S1 static: refresh||logout", static, []string{"refresh", "logout"}, b),
			c16Scenario("S2 discovery first use: nocookie||nocookie", disc, []string{"nocookie", "nocookie"}, b),
			c16Scenario("S2 discovery: callback||fresh", disc, []string{"callback", "fresh"}, b),
			c16Scenario("S2 discovery, two providers first use: nocookie(a)||nocookie(b)", c16Opts{Discovery: true, TwoProviders: true}, []string{"nocookie", "nocookie-b"}, b),
			c16Scenario("S3 secret rotation: callback||reconcile", c16Opts{SecretRef: true}, []string{"callback", "reconcile"}, b),
			c16Scenario("S3 secret rotation: refresh||reconcile", c16Opts{SecretRef: true}, []string{"refresh", "reconcile"}, b),
			c16Scenario("S4 CA file: callback||rotate", c16Opts{CAFile: true}, []string{"callback", "rotate"}, b),
			c16Scenario("S4 CA file: callback||nocookie", c16Opts{CAFile: true}, []string{"callback", "nocookie"}, b),
			c16Scenario("S4 two CA files: rotate(a)||first use of b", c16Opts{CAFile: true, TwoProviders: true, Discovery: true}, []string{"rotate", "nocookie-b"}, b),
			c16Scenario("S5 jwks fetcher first use: callback||callback", c16Opts{JWKSFetch: true}, []string{"callback", "callback"}, b),
			c16Scenario("S7 proxy: callback||refresh", c16Opts{Proxy: true}, []string{"callback", "refresh"}, b),
			c16Scenario("S6 redis: callback||callback", c16Opts{Redis: true, Logout: true}, []string{"callback", "callback"}, b),
			c16Scenario("S6 redis: callback||refresh", c16Opts{Redis: true, Logout: true}, []string{"callback", "refresh"}, b),
			c16Scenario("S8 session time-outs, two minutes after start-up: nocookie||callback", c16Opts{Logout: true, Idle: 3600, Later: 2 * time.Minute}, []string{"nocookie", "callback"}, b),
			c16Scenario("S2 discovery document that has moved, seen again an hour later: nocookie||later+nocookie", c16Opts{Discovery: true, Logout: true, MovingDiscovery: true}, []string{"nocookie", "later-nocookie"}, b),
		}
	}
	scs := mk(1) // function-entry + lock points, one pre-emption
	if tier == "thorough" {
		scs = append(scs, mk(-3)...) // lock points only, three pre-emptions
		for _, b := range []int{1, -2} {
			scs = append(scs,
				c16Scenario("S1 static: 3 threads", static, []string{"nocookie", "callback", "refresh"}, b),
				c16Scenario("S2 discovery: 3 threads", disc, []string{"nocookie", "callback", "refresh"}, b),
				c16Scenario("S4 CA file: callback||rotate||nocookie", c16Opts{CAFile: true}, []string{"callback", "rotate", "nocookie"}, b),
			)
		}
		// the full matrix of request-kind pairs, on different sessions and on the same session (static configuration)
		kinds := []string{"nocookie", "fresh", "refresh", "callback", "logout"}
		have := map[string]bool{}
		for _, sc := range scs {
			have[sc.Name] = true
		}
		for i, a := range kinds {
			for _, b := range kinds[i:] {
				n1 := fmt.Sprintf("S1 static matrix: %s||%s", a, b)
				if !have[n1] {
					scs = append(scs, c16Scenario(n1, static, []string{a, b}, 1))
				}
				if a != "nocookie" && b != "nocookie" {
					scs = append(scs, c16Scenario(fmt.Sprintf("S1 static matrix: %s||%s on the same session", a, b), static, []string{a, b + "@0"}, 1))
				}
			}
		}
		scs = append(scs,
			c16Scenario("S6 redis: fresh||refresh", c16Opts{Redis: true}, []string{"fresh", "refresh"}, -2),
			c16Scenario("S6 redis: callback||logout", c16Opts{Redis: true, Logout: true}, []string{"callback", "logout"}, -2),
		)
	}
	return scs
}

func c16Run(run *ev.Run) {
	run.Rule = "race-oracle schedule exploration: 2-3 harness threads (checks of different kinds through ExtAuthZFilter.Check on ONE shared Config / TLS pool / JWKS provider / store factory; secret-controller Reconcile; CA rotation) run under the cooperative scheduler built with -race; hand-offs are raw pipe syscalls from //go:norace code, invisible to the race runtime, so its vector clocks contain only the program's own happens-before edges and every schedule (quick: one pre-emption over scheduling points at every lock operation of the rewritten sync package AND every function entry of the repository's packages; thorough adds three pre-emptions over lock operations only and three-thread scenarios) is judged by the happens-before race detector, the scheduler's deadlock detection and recover(); provider answers come from a per-connection pure responder (no cross-thread edges); class = distinct observation logs per scenario"
	run.Assumptions = []string{
		"'many goroutines on 16 cores' is replaced by all schedules of 2-3 threads within the pre-emption bound; accesses no scenario executes are not seen",
		"Redis scenarios: every Redis round trip passes through syscall.Read/Write whose global ioSync edge hides most races from any use of Go's race detector; they are run for deadlock/panic only",
		"a report counts when the innermost repository frame of either access is repository code (generated config getters included); harness-only reports are ignored",
	}
	if !vsched.RaceEnabled {
		run.HarnessError("C16 must be built with -race (use ./check C16)")
		return
	}
	if len(raceLogFiles()) == 0 && !strings.Contains(os.Getenv("GORACE"), "log_path=") {
		run.HarnessError("C16 needs GORACE=log_path=... (use ./check C16)")
		return
	}
	if name := os.Getenv("VERIF_C16_CHILD"); name != "" {
		c16Child(run, name)
		return
	}
	// one worker subprocess per scenario: the race runtime and leaked helper goroutines make a long-lived process
	// slower and slower, and the scenarios are independent
	scs := c16Scenarios(run.Tier)
	results := make([]*c16ChildResult, len(scs))
	exe, _ := os.Executable()
	scratch := os.Getenv("VERIF_SCRATCH")
	if scratch == "" {
		scratch = os.TempDir()
	}
	par.For(len(scs), nil, func(i int) {
		out := filepath.Join(scratch, fmt.Sprintf("c16-child-%d.json", i))
		cmd := exec.Command(exe, "C16", "--tier", run.Tier, "--verif", filepath.Join(scratch, fmt.Sprintf("c16-child-%d", i)))
		cmd.Env = append(os.Environ(), "VERIF_C16_CHILD="+scs[i].Name, "VERIF_C16_OUT="+out,
			fmt.Sprintf("GORACE=halt_on_error=0 exitcode=0 history_size=5 log_path=%s/race-child-%d", scratch, i),
			fmt.Sprintf("VERIF_BUDGET_S=%d", min(int(time.Until(run.Deadline).Seconds())-20, 420)))
		// (a worker that hangs for a reason the watchdog does not see is killed a minute after its own budget)
		killer := time.AfterFunc(time.Duration(min(int(time.Until(run.Deadline).Seconds())-20, 420)+60)*time.Second, func() {
			if cmd.Process != nil {
				_ = cmd.Process.Kill()
			}
		})
		b, err := cmd.CombinedOutput()
		killer.Stop()
		res := &c16ChildResult{Scenario: scs[i].Name}
		if data, rerr := os.ReadFile(out); rerr == nil {
			_ = json.Unmarshal(data, res)
		} else {
			res.HarnessErrors = append(res.HarnessErrors, fmt.Sprintf("worker for %q produced no result (%v): %s", scs[i].Name, err, lastLines(string(b), 15)))
		}
		results[i] = res
	})
	var schedules, points, states int64
	for _, res := range results {
		for _, he := range res.HarnessErrors {
			run.HarnessError("C16 worker: " + he)
		}
		for _, v := range res.Violations {
			run.Violation(v.Signature, v.Message, v.Replay)
		}
		schedules += res.Schedules
		points += res.Points
		states += int64(len(res.Distinct))
		run.Extra["schedules "+res.Scenario] = res.Schedules
		for _, o := range res.Distinct {
			run.Class(res.Scenario + "|" + o)
		}
		if !res.Complete {
			run.Cap("scenario not completed: " + res.Scenario)
		}
		if len(res.Samples) > 0 {
			run.Sample(res.Samples[0])
		}
	}
	run.States, run.Transitions, run.Traces, run.Evals = states, points, schedules, schedules
}

type c16ChildViolation struct {
	Signature string `json:"signature"`
	Message   string `json:"message"`
	Replay    any    `json:"replay"`
}

type c16ChildResult struct {
	Scenario      string              `json:"scenario"`
	Schedules     int64               `json:"schedules"`
	Points        int64               `json:"points"`
	Distinct      []string            `json:"distinct"`
	Complete      bool                `json:"complete"`
	Violations    []c16ChildViolation `json:"violations"`
	HarnessErrors []string            `json:"harness_errors"`
	Samples       []any               `json:"samples"`
}

func lastLines(s string, n int) string {
	ls := strings.Split(strings.TrimSpace(s), "\n")
	if len(ls) > n {
		ls = ls[len(ls)-n:]
	}
	return strings.Join(ls, " / ")
}

func c16Child(run *ev.Run, name string) {
	res := &c16ChildResult{Scenario: name}
	run.Collector = func(sig, msg string, replay any) {
		res.Violations = append(res.Violations, c16ChildViolation{sig, msg, replay})
	}
	// a lock wait that can never end (a managed thread waiting for a lock held by a goroutine the repository started
	// itself, which in turn waits for a lock of that thread) would hang the worker: the watchdog reports it instead
	vsched.OnRealDeadlock = func(info string) {
		first := info
		if i := strings.Index(first, ";"); i > 0 {
			first = first[:i]
		}
		res.Violations = append(res.Violations, c16ChildViolation{"C16 deadlock (lock wait that cannot end) scenario=" + name,
			"the execution stopped for good: " + info, map[string]any{"scenario": name, "kind": "real-deadlock"}})
		res.Complete = false
		b, _ := json.Marshal(res)
		_ = os.WriteFile(os.Getenv("VERIF_C16_OUT"), b, 0o644)
		os.Exit(0)
	}
	found := false
	for _, sc := range c16Scenarios(run.Tier) {
		if sc.Name != name {
			continue
		}
		found = true
		cs := schedx.Explore(run, "C16", sc)
		res.Schedules, res.Points, res.Complete = cs.Schedules, cs.Points, cs.Complete
		for o := range cs.Distinct {
			res.Distinct = append(res.Distinct, o)
		}
		sort.Strings(res.Distinct)
	}
	if !found {
		res.HarnessErrors = append(res.HarnessErrors, "unknown scenario "+name)
	}
	res.Samples = run.Samples
	b, _ := json.Marshal(res)
	_ = os.WriteFile(os.Getenv("VERIF_C16_OUT"), b, 0o644)
}

func c16ReplayFn(path string) int {
	var rp schedx.Replay
	if _, err := loadReplay(path, &rp); err != nil {
		fmt.Println(err)
		return 2
	}
	for _, sc := range c16Scenarios("thorough") {
		if sc.Name == rp.Scenario {
			obs, v, err := schedx.ReplayOnce(sc, rp.Choices)
			if err != nil {
				fmt.Println(err)
				return 2
			}
			return replayVerdict("C16", len(v) > 0, obs)
		}
	}
	return 2
}

func init() { Registry["C16"] = Prop{Run: c16Run, Replay: c16ReplayFn} }

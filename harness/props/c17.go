package props

import (
	"encoding/json"
	"fmt"
	"net/url"
	"os"
	"path/filepath"
	"runtime"
	"sort"
	"strings"
	"sync/atomic"

	configv1 "github.com/istio-ecosystem/authservice/config/gen/go/v1"
	oidcv1 "github.com/istio-ecosystem/authservice/config/gen/go/v1/oidc"
	"github.com/istio-ecosystem/authservice/internal"
	"github.com/istio-ecosystem/authservice/zzverif/ev"
	"github.com/istio-ecosystem/authservice/zzverif/par"
)

// C17: configuration loading — accepted means safe to run, rejected means an error.

type c17Dev struct {
	Path  string `json:"path"`  // dotted path, numeric components index arrays
	Value any    `json:"value"` // "\x00delete" removes the member
	Name  string `json:"name"`
}

type c17Case struct {
	Shape string   `json:"shape"`
	Devs  []c17Dev `json:"deviations"`
	Doc   string   `json:"document,omitempty"`
}

const c17Delete = "\x00delete"

func c17HonestOIDC() map[string]any {
	return map[string]any{
		"authorization_uri": "https://idp.test/auth", "token_uri": "https://idp.test/token", "callback_uri": "https://app.test/callback",
		"jwks": `{"keys":[]}`, "client_id": "cid", "client_secret": "secret",
		"id_token": map[string]any{"header": "authorization", "preamble": "Bearer"},
	}
}

func c17Base(shape string) map[string]any {
	doc := map[string]any{"listen_address": "0.0.0.0", "listen_port": 8080, "log_level": "debug"}
	switch shape {
	case "plain":
		doc["chains"] = []any{map[string]any{"name": "c1", "filters": []any{map[string]any{"oidc": c17HonestOIDC()}}}}
	case "override":
		def := c17HonestOIDC()
		delete(def, "client_id")
		delete(def, "client_secret")
		def["proxy_uri"] = "http://proxy:3128"
		def["cookie_name_prefix"] = "dflt"
		doc["default_oidc_config"] = def
		ov := map[string]any{"client_id": "cid2", "client_secret": "secret2", "token_uri": "https://idp2.test/token",
			"id_token": map[string]any{"header": "x-id"}}
		doc["chains"] = []any{map[string]any{"name": "c1", "filters": []any{map[string]any{"oidc_override": ov}}}}
	case "two-chains":
		o2 := c17HonestOIDC()
		o2["client_id"] = "cid-b"
		o2["cookie_name_prefix"] = "b"
		doc["chains"] = []any{
			map[string]any{"name": "c1", "match": map[string]any{"header": "x-tenant", "equality": "a"},
				"filters": []any{map[string]any{"mock": map[string]any{"allow": true}}, map[string]any{"oidc": c17HonestOIDC()}}},
			map[string]any{"name": "c2", "filters": []any{map[string]any{"oidc": o2}}},
		}
	}
	return doc
}

func c17OIDCLocations(shape string) []string {
	switch shape {
	case "plain":
		return []string{"chains.0.filters.0.oidc"}
	case "override":
		return []string{"default_oidc_config", "chains.0.filters.0.oidc_override"}
	}
	return []string{"chains.0.filters.1.oidc", "chains.1.filters.0.oidc"}
}

func c17FieldVariants() map[string][]any {
	m := func(kv ...any) map[string]any {
		o := map[string]any{}
		for i := 0; i+1 < len(kv); i += 2 {
			o[kv[i].(string)] = kv[i+1]
		}
		return o
	}
	return map[string][]any{
		"callback_uri":      {c17Delete, "", "/", "https://h", "https://h/", "https://h/cb", "%zz", "://", "https://app.test/logout", "https://h/cb%", ":cb", "https://h/?x#y", "/relative/cb"},
		"logout":            {m(), m("path", "/"), m("path", "/callback"), m("path", "/logout", "redirect_uri", "https://idp.test/logout"), m("path", "/logout"), m("path", ""), m("redirect_uri", "https://idp.test/logout"),
			m("path", "/logout%"), m("path", "%zz"), m("path", ":logout"), m("path", "/lo\x7fgout"), m("path", "/logout?x=1"), m("path", "/logout", "redirect_uri", "%zz"), m("path", "logout")},
		"client_id":         {c17Delete, "", "a:b", "other"},
		"client_secret":     {c17Delete, "", "s2"},
		"client_secret_ref": {m(), m("name", "n"), m("name", "n", "namespace", "ns")},
		"id_token":          {c17Delete, m("header", ""), m("header", "x-h", "preamble", "P"), m("preamble", "only")},
		"access_token":      {m("header", ""), m("header", "x-at"), m()},
		"authorization_uri": {c17Delete, "", "%zz", "https://other/auth"},
		"token_uri":         {c17Delete, "%zz", "https://other/token"},
		"jwks":              {c17Delete, "", "{}"},
		"jwks_fetcher":      {m("jwks_uri", "https://idp.test/jwks"), m(), m("jwks_uri", "%zz"), m("jwks_uri", "https://idp.test/jwks", "periodic_fetch_interval_sec", 5)},
		"configuration_uri": {"https://idp.test/.well-known/openid-configuration", "%zz"},
		"scopes":            {[]any{}, []any{"email"}, []any{"openid"}, []any{"openid", "openid"}, []any{""}},
		"redis_session_store_config": {m("server_uri", "tcp://h:1"), m("server_uri", "redis://h:1/0"), m("server_uri", "x"), m("server_uri", ""), m()},
		"proxy_uri":                 {"http://p:1", "%zz", c17Delete},
		"absolute_session_timeout":  {5, 0},
		"idle_session_timeout":      {5},
		"cookie_name_prefix":        {"p", ""},
		"skip_verify_peer_cert":     {true, "true", "x", 7, nil},
		"trusted_certificate_authority":      {"not-a-pem"},
		"trusted_certificate_authority_file": {"/nonexistent/ca.pem"},
		"trusted_certificate_authority_refresh_interval": {"5s", "-1s"},
	}
}

func c17Deviations(shape string) []c17Dev {
	var ds []c17Dev
	fv := c17FieldVariants()
	var fields []string
	for f := range fv {
		fields = append(fields, f)
	}
	sort.Strings(fields)
	for _, loc := range c17OIDCLocations(shape) {
		for _, f := range fields {
			for i, v := range fv[f] {
				ds = append(ds, c17Dev{Path: loc + "." + f, Value: v, Name: fmt.Sprintf("%s.%s#%d", loc, f, i)})
			}
		}
	}
	top := map[string][]any{
		"listen_port":              {c17Delete, 70000, -1, 0},
		"health_listen_port":       {8080, 9090, 70000},
		"listen_address":           {c17Delete, "nope", ""},
		"log_level":                {c17Delete, "", "loud", "info"},
		"threads":                  {0, 8},
		"allow_unmatched_requests": {true},
		"trigger_rules": {[]any{map[string]any{}}, []any{map[string]any{"excluded_paths": []any{map[string]any{}}}},
			[]any{map[string]any{"included_paths": []any{map[string]any{"regex": "("}}}}, []any{nil}},
		"chains":              {c17Delete, []any{}, []any{nil}, []any{map[string]any{}}},
		"default_oidc_config": {map[string]any{}, c17HonestOIDC(), c17Delete},
		"chains.0.name":       {"", c17Delete},
		"chains.0.match":      {map[string]any{}, map[string]any{"header": "h"}, map[string]any{"header": "", "prefix": "p"}, map[string]any{"header": "h", "prefix": ""}, map[string]any{"header": "h", "equality": "v"}},
		"chains.0.filters":    {[]any{}, c17Delete, []any{nil}},
	}
	// every odd string in every free-form string field of every OIDC config location
	for _, loc := range c17OIDCLocations(shape) {
		for _, f := range []string{"callback_uri", "client_id", "client_secret", "cookie_name_prefix", "authorization_uri", "token_uri", "proxy_uri",
			"configuration_uri", "jwks", "trusted_certificate_authority", "trusted_certificate_authority_file"} {
			for i, odd := range oddStrings {
				v := odd
				if strings.HasSuffix(f, "_uri") {
					v = "https://h/p" + odd
				}
				ds = append(ds, c17Dev{Path: loc + "." + f, Value: v, Name: fmt.Sprintf("%s.%s#odd%d", loc, f, i)})
			}
		}
		for i, odd := range oddStrings {
			ds = append(ds, c17Dev{Path: loc + ".logout", Value: map[string]any{"path": "/logout" + odd, "redirect_uri": "https://idp.test/lo" + odd}, Name: fmt.Sprintf("%s.logout#odd%d", loc, i)})
			ds = append(ds, c17Dev{Path: loc + ".logout", Value: map[string]any{"path": odd, "redirect_uri": odd}, Name: fmt.Sprintf("%s.logout#oddraw%d", loc, i)})
			ds = append(ds, c17Dev{Path: loc + ".id_token", Value: map[string]any{"header": "h" + odd, "preamble": odd}, Name: fmt.Sprintf("%s.id_token#odd%d", loc, i)})
			ds = append(ds, c17Dev{Path: loc + ".scopes", Value: []any{odd, "openid"}, Name: fmt.Sprintf("%s.scopes#odd%d", loc, i)})
			ds = append(ds, c17Dev{Path: loc + ".redis_session_store_config", Value: map[string]any{"server_uri": "redis://h:1/" + odd}, Name: fmt.Sprintf("%s.redis#odd%d", loc, i)})
		}
	}
	var tks []string
	for k := range top {
		tks = append(tks, k)
	}
	sort.Strings(tks)
	for _, k := range tks {
		for i, v := range top[k] {
			ds = append(ds, c17Dev{Path: k, Value: v, Name: fmt.Sprintf("%s#%d", k, i)})
		}
	}
	// filter slots
	slots := []string{"chains.0.filters.0"}
	if shape == "two-chains" {
		slots = []string{"chains.0.filters.0", "chains.0.filters.1", "chains.1.filters.0", "chains.1.filters.1", "chains.0.filters.2"}
	} else {
		slots = append(slots, "chains.0.filters.1")
	}
	for _, s := range slots {
		for i, v := range []any{map[string]any{}, map[string]any{"mock": map[string]any{}}, map[string]any{"mock": map[string]any{"allow": true}},
			map[string]any{"oidc": c17HonestOIDC()}, map[string]any{"oidc_override": map[string]any{"client_id": "ov"}}, map[string]any{"oidc": map[string]any{}},
			map[string]any{"oidc_override": map[string]any{}}, nil} {
			ds = append(ds, c17Dev{Path: s, Value: v, Name: fmt.Sprintf("%s#%d", s, i)})
		}
	}
	return ds
}

func c17DeepCopy(v any) any {
	b, _ := json.Marshal(v)
	var o any
	_ = json.Unmarshal(b, &o)
	return o
}

// c17Apply sets/deletes path in doc (maps and arrays; an index one past the end appends).
func c17Apply(doc map[string]any, d c17Dev) bool {
	parts := strings.Split(d.Path, ".")
	var cur any = doc
	for i, p := range parts {
		last := i == len(parts)-1
		switch c := cur.(type) {
		case map[string]any:
			if last {
				if s, ok := d.Value.(string); ok && s == c17Delete {
					delete(c, p)
				} else {
					c[p] = c17DeepCopy(d.Value)
				}
				return true
			}
			nxt, ok := c[p]
			if !ok {
				return false
			}
			cur = nxt
		case []any:
			var idx int
			if _, err := fmt.Sscanf(p, "%d", &idx); err != nil {
				return false
			}
			if last {
				if idx < len(c) {
					c[idx] = c17DeepCopy(d.Value)
					return true
				}
				if idx == len(c) {
					// need the parent to append: handled by the caller through the parent map
					return false
				}
				return false
			}
			if idx >= len(c) {
				return false
			}
			cur = c[idx]
		default:
			return false
		}
	}
	return false
}

// c17ApplyAppend handles "one past the end" array targets.
func c17ApplyAny(doc map[string]any, d c17Dev) bool {
	if c17Apply(doc, d) {
		return true
	}
	parts := strings.Split(d.Path, ".")
	if len(parts) < 2 {
		return false
	}
	var idx int
	if _, err := fmt.Sscanf(parts[len(parts)-1], "%d", &idx); err != nil {
		return false
	}
	// find parent array holder
	var cur any = doc
	for _, p := range parts[:len(parts)-2] {
		switch c := cur.(type) {
		case map[string]any:
			cur = c[p]
		case []any:
			var i int
			fmt.Sscanf(p, "%d", &i)
			if i >= len(c) {
				return false
			}
			cur = c[i]
		default:
			return false
		}
	}
	holder, ok := cur.(map[string]any)
	if !ok {
		return false
	}
	arr, ok := holder[parts[len(parts)-2]].([]any)
	if !ok || idx != len(arr) {
		return false
	}
	holder[parts[len(parts)-2]] = append(arr, c17DeepCopy(d.Value))
	return true
}

type c17Outcome struct {
	Panic    string
	Site     string
	Err      string
	Accepted bool
	Problems []string
}

var c17Counter int64

func c17Load(docJSON []byte) (out c17Outcome, cfg *configv1.Config) {
	dir := os.Getenv("VERIF_SCRATCH")
	if dir == "" {
		dir = os.TempDir()
	}
	p := filepath.Join(dir, fmt.Sprintf("c17-%d-%d.json", os.Getpid(), atomic.AddInt64(&c17Counter, 1)))
	if err := os.WriteFile(p, docJSON, 0o600); err != nil {
		panic(err)
	}
	defer os.Remove(p)
	l := &internal.LocalConfigFile{}
	if err := l.FlagSet().Parse([]string{"--config-path", p}); err != nil {
		panic("harness: cannot set config path: " + err.Error())
	}
	defer func() {
		if rec := recover(); rec != nil {
			buf := make([]byte, 8192)
			buf = buf[:runtime.Stack(buf, false)]
			out = c17Outcome{Panic: fmt.Sprint(rec), Site: panicSite(string(buf))}
			cfg = nil
		}
	}()
	if err := l.Validate(); err != nil {
		return c17Outcome{Err: err.Error()}, nil
	}
	return c17Outcome{Accepted: true}, &l.Config
}

// c17Post is the independent post-condition predicate on an accepted configuration.
func c17Post(cfg *configv1.Config) []string {
	var bad []string
	if cfg.DefaultOidcConfig != nil {
		bad = append(bad, "default_oidc_config-not-cleared")
	}
	if len(cfg.Chains) == 0 {
		bad = append(bad, "no-chains")
	}
	for _, ch := range cfg.Chains {
		if ch == nil {
			bad = append(bad, "nil-chain")
			continue
		}
		if len(ch.Filters) == 0 {
			bad = append(bad, "chain-without-filters")
		}
		nOIDC := 0
		for _, f := range ch.Filters {
			if f == nil {
				bad = append(bad, "nil-filter")
				continue
			}
			switch t := f.Type.(type) {
			case *configv1.Filter_Mock:
			case *configv1.Filter_Oidc:
				nOIDC++
				bad = append(bad, c17PostOIDC(t.Oidc)...)
			case *configv1.Filter_OidcOverride:
				bad = append(bad, "unresolved-oidc_override")
			default:
				bad = append(bad, "untyped-filter")
			}
		}
		if nOIDC > 1 {
			bad = append(bad, "more-than-one-oidc-filter-in-chain")
		}
	}
	return bad
}

func c17PostOIDC(o *oidcv1.OIDCConfig) []string {
	var bad []string
	if o == nil {
		return []string{"nil-oidc-config"}
	}
	has := false
	for _, s := range o.Scopes {
		if s == "openid" {
			has = true
		}
	}
	if !has {
		bad = append(bad, "openid-scope-missing")
	}
	u, err := url.Parse(o.CallbackUri)
	if err != nil || o.CallbackUri == "" {
		bad = append(bad, "callback-unparseable-or-empty")
	} else if u.Path == "" || u.Path == "/" {
		bad = append(bad, "callback-root-path")
	}
	if lo := o.Logout; lo != nil {
		if lo.Path == "" || lo.Path == "/" {
			bad = append(bad, "logout-root-or-empty-path")
		} else if err == nil && u != nil && lo.Path == u.Path {
			bad = append(bad, "logout-path-equals-callback-path")
		}
	}
	if o.ClientId == "" || strings.Contains(o.ClientId, ":") {
		bad = append(bad, "client-id-empty-or-with-colon")
	}
	switch s := o.ClientSecretConfig.(type) {
	case *oidcv1.OIDCConfig_ClientSecret:
		if s.ClientSecret == "" {
			bad = append(bad, "client-secret-empty")
		}
	case *oidcv1.OIDCConfig_ClientSecretRef:
		if s.ClientSecretRef.GetName() == "" {
			bad = append(bad, "client-secret-ref-without-name")
		}
	default:
		bad = append(bad, "no-client-secret-source")
	}
	if o.IdToken.GetHeader() == "" {
		bad = append(bad, "id-token-header-empty")
	}
	if o.AccessToken != nil && o.AccessToken.GetHeader() == "" {
		bad = append(bad, "access-token-header-empty")
	}
	if o.ConfigurationUri == "" {
		if o.AuthorizationUri == "" || o.TokenUri == "" || (o.GetJwks() == "" && o.GetJwksFetcher().GetJwksUri() == "") {
			bad = append(bad, "endpoints-incomplete-without-discovery")
		}
	}
	return bad
}

// c17MergeExpect checks "override's if set, else default's" for scalar members (shape override).
func c17MergeExpect(doc map[string]any, cfg *configv1.Config) []string {
	def, _ := doc["default_oidc_config"].(map[string]any)
	chains, _ := doc["chains"].([]any)
	if def == nil || len(chains) == 0 || len(cfg.Chains) == 0 {
		return nil
	}
	var bad []string
	for ci, chAny := range chains {
		ch, _ := chAny.(map[string]any)
		fs, _ := ch["filters"].([]any)
		for fi, fAny := range fs {
			f, _ := fAny.(map[string]any)
			ov, ok := f["oidc_override"].(map[string]any)
			if !ok || ci >= len(cfg.Chains) || fi >= len(cfg.Chains[ci].Filters) {
				continue
			}
			got := cfg.Chains[ci].Filters[fi].GetOidc()
			if got == nil {
				continue
			}
			pick := func(name string) string {
				if v, ok := ov[name].(string); ok && v != "" {
					return v
				}
				v, _ := def[name].(string)
				return v
			}
			exp := map[string][2]string{
				"authorization_uri":  {pick("authorization_uri"), got.AuthorizationUri},
				"token_uri":          {pick("token_uri"), got.TokenUri},
				"callback_uri":       {pick("callback_uri"), got.CallbackUri},
				"client_id":          {pick("client_id"), got.ClientId},
				"cookie_name_prefix": {pick("cookie_name_prefix"), got.CookieNamePrefix},
				"proxy_uri":          {pick("proxy_uri"), got.ProxyUri},
				"configuration_uri":  {pick("configuration_uri"), got.ConfigurationUri},
			}
			sub := func(name, member string) string {
				if m, ok := ov[name].(map[string]any); ok {
					if v, ok := m[member].(string); ok && v != "" {
						return v
					}
				}
				if m, ok := def[name].(map[string]any); ok {
					v, _ := m[member].(string)
					return v
				}
				return ""
			}
			exp["id_token.header"] = [2]string{sub("id_token", "header"), got.IdToken.GetHeader()}
			exp["id_token.preamble"] = [2]string{sub("id_token", "preamble"), got.IdToken.GetPreamble()}
			exp["logout.path"] = [2]string{sub("logout", "path"), got.Logout.GetPath()}
			for k, v := range exp {
				if v[0] != v[1] {
					bad = append(bad, fmt.Sprintf("merge:%s expected %q got %q", k, v[0], v[1]))
				}
			}
			// scopes, as a set (order and repetition are not fixed by the statement): exactly the default's, this
			// override's and "openid" - nothing lost, nothing that only another chain's override declares
			want := map[string]bool{"openid": true}
			for _, src := range []map[string]any{def, ov} {
				if l, ok := src["scopes"].([]any); ok {
					for _, x := range l {
						if sx, ok := x.(string); ok {
							want[sx] = true
						}
					}
				}
			}
			have := map[string]bool{}
			for _, sx := range got.Scopes {
				have[sx] = true
				if !want[sx] {
					bad = append(bad, fmt.Sprintf("merge:scopes chain %d has scope %q that neither the default nor its override declares", ci, sx))
				}
			}
			for sx := range want {
				if !have[sx] {
					bad = append(bad, fmt.Sprintf("merge:scopes chain %d lacks scope %q", ci, sx))
				}
			}
		}
	}
	sort.Strings(bad)
	return bad
}

func c17RunCase(c c17Case) (c17Outcome, string) {
	var doc map[string]any
	var raw []byte
	if c.Doc != "" {
		raw = []byte(c.Doc)
		_ = json.Unmarshal(raw, &doc)
	} else {
		doc = c17Base(c.Shape)
		for _, d := range c.Devs {
			if !c17ApplyAny(doc, d) {
				return c17Outcome{Err: "deviation not applicable"}, "n/a"
			}
		}
		raw, _ = json.Marshal(doc)
	}
	out, cfg := c17Load(raw)
	if out.Accepted {
		out.Problems = c17Post(cfg)
		if c.Shape == "override" || c.Doc != "" {
			for _, p := range c17MergeExpect(doc, cfg) {
				out.Problems = append(out.Problems, p)
			}
		}
	}
	return out, string(raw)
}

func c17Run(run *ev.Run) {
	run.Rule = "three honest base documents (plain oidc; default+override; two chains) with every single deviation and every pair of deviations (triples in thorough) from a grammar over all fields/oneof arms/filter slots of config.proto and oidc/config.proto ({omitted, empty, odd-but-type-correct}); plus default scope lists of 0..8 entries x two and three overriding chains (scopes merged as sets, nothing of another chain); plus every shipped fixture with every single member deletion; each document loaded by the real LocalConfigFile.Validate(); oracle: no panic, and error XOR a Config passing an independent post-condition predicate; class = (accepted|rejected|panic, deviating fields)"
	run.Assumptions = []string{"repeated fields are compared as sets in the merge check (proto merge appends; the statement fixes neither order nor repetition)", "only JSON documents that protojson can type are in the grammar; syntactically broken JSON is rejected by the decoder"}
	var cases []c17Case
	for _, shape := range []string{"plain", "override", "two-chains"} {
		ds := c17Deviations(shape)
		cases = append(cases, c17Case{Shape: shape})
		for i := range ds {
			cases = append(cases, c17Case{Shape: shape, Devs: []c17Dev{ds[i]}})
		}
		isOdd := func(d c17Dev) bool { return strings.Contains(d.Name, "#odd") }
		for i := range ds {
			for j := i + 1; j < len(ds); j++ {
				if ds[i].Path == ds[j].Path || (isOdd(ds[i]) && isOdd(ds[j])) {
					continue
				}
				// odd-string deviations pair only with structural (non-odd) ones in the thorough tier
				if (isOdd(ds[i]) || isOdd(ds[j])) && run.Tier != "thorough" {
					continue
				}
				cases = append(cases, c17Case{Shape: shape, Devs: []c17Dev{ds[i], ds[j]}})
			}
		}
		if run.Tier == "thorough" && shape != "two-chains" {
			// triples over a reduced deviation set (every third variant)
			var red []c17Dev
			for i, d := range ds {
				if i%3 == 0 && !strings.Contains(d.Name, "#odd") {
					red = append(red, d)
				}
			}
			for i := range red {
				for j := i + 1; j < len(red); j++ {
					for k := j + 1; k < len(red); k++ {
						if red[i].Path == red[j].Path || red[j].Path == red[k].Path || red[i].Path == red[k].Path {
							continue
						}
						cases = append(cases, c17Case{Shape: shape, Devs: []c17Dev{red[i], red[j], red[k]}})
					}
				}
			}
		}
	}
	// every list of up to four filters over {mock allow, mock deny, oidc, oidc_override} as the filters of chain 0, in the
	// plain and in the default+override document: order and distance between the OIDC filters must not matter
	kinds := []any{map[string]any{"mock": map[string]any{"allow": true}}, map[string]any{"mock": map[string]any{}},
		map[string]any{"oidc": c17HonestOIDC()}, map[string]any{"oidc_override": map[string]any{"client_id": "ov"}}}
	for _, shape := range []string{"plain", "override"} {
		var gen func(prefix []any)
		gen = func(prefix []any) {
			if len(prefix) > 0 {
				cases = append(cases, c17Case{Shape: shape, Devs: []c17Dev{{Path: "chains.0.filters", Value: append([]any{}, prefix...), Name: fmt.Sprintf("filters=%d", len(prefix))}}})
			}
			if len(prefix) == 4 {
				return
			}
			for _, k := range kinds {
				gen(append(append([]any{}, prefix...), k))
			}
		}
		gen(nil)
	}
	// scope lists across several overriding chains: default lists of 0..8 scopes (with and without "openid") x two
	// and three chains whose overrides add nothing, "openid", a scope of their own, or both
	nScopeDocs := 0
	for k := 0; k <= 8; k++ {
		for _, withOpenID := range []bool{false, true} {
			if k == 0 && withOpenID {
				continue
			}
			var defScopes []any
			for i := 0; i < k; i++ {
				defScopes = append(defScopes, fmt.Sprintf("s%d", i))
			}
			if withOpenID {
				defScopes[0] = "openid"
			}
			for nch := 2; nch <= 3; nch++ {
				combos := 1
				for i := 0; i < nch; i++ {
					combos *= 4
				}
				for c := 0; c < combos; c++ {
					def := c17HonestOIDC()
					if defScopes != nil {
						def["scopes"] = defScopes
					}
					doc := map[string]any{"listen_address": "0.0.0.0", "listen_port": 8080, "log_level": "debug", "default_oidc_config": def}
					var chains []any
					x := c
					for ci := 0; ci < nch; ci++ {
						ov := map[string]any{"cookie_name_prefix": fmt.Sprintf("c%d", ci)}
						switch x % 4 {
						case 1:
							ov["scopes"] = []any{"openid"}
						case 2:
							ov["scopes"] = []any{fmt.Sprintf("own%d", ci)}
						case 3:
							ov["scopes"] = []any{"openid", fmt.Sprintf("own%d", ci)}
						}
						x /= 4
						chains = append(chains, map[string]any{"name": fmt.Sprintf("c%d", ci),
							"match":   map[string]any{"header": "x-tenant", "equality": fmt.Sprintf("t%d", ci)},
							"filters": []any{map[string]any{"oidc_override": ov}}})
					}
					doc["chains"] = chains
					b, _ := json.Marshal(doc)
					cases = append(cases, c17Case{Shape: "override-scopes", Doc: string(b)})
					nScopeDocs++
				}
			}
		}
	}
	run.Extra["override_scope_documents"] = nScopeDocs
	// shipped fixtures with single-member deletions
	repo := os.Getenv("VERIF_REPO")
	if repo == "" {
		repo = "/repo"
	}
	fixtures, _ := filepath.Glob(filepath.Join(repo, "internal/testdata/*.json"))
	sort.Strings(fixtures)
	for _, fx := range fixtures {
		b, err := os.ReadFile(fx)
		if err != nil {
			continue
		}
		cases = append(cases, c17Case{Shape: "fixture:" + filepath.Base(fx), Doc: string(b)})
		var doc any
		if json.Unmarshal(b, &doc) != nil {
			continue
		}
		for _, p := range c17AllPaths(doc, "") {
			var d2 any
			_ = json.Unmarshal(b, &d2)
			if c17DeletePath(d2, strings.Split(p, ".")) {
				nb, _ := json.Marshal(d2)
				cases = append(cases, c17Case{Shape: "fixture:" + filepath.Base(fx) + "-" + p, Doc: string(nb)})
			}
		}
	}
	var evals, accepted int64
	par.For(len(cases), run.Expired, func(i int) {
		c := cases[i]
		out, raw := c17RunCase(c)
		if raw == "n/a" {
			return
		}
		atomic.AddInt64(&evals, 1)
		var names []string
		for _, d := range c.Devs {
			n := d.Name
			if k := strings.Index(n, "#"); k >= 0 {
				n = n[:k]
			}
			if k := strings.LastIndex(n, "."); k >= 0 {
				n = n[k+1:]
			}
			names = append(names, n)
		}
		verdict := "rejected"
		switch {
		case out.Panic != "":
			verdict = "panic"
			run.Violation("C17 panic at="+out.Site, fmt.Sprintf("loading panicked: %s; document: %s", out.Panic, raw), c17Case{Shape: c.Shape, Devs: c.Devs, Doc: raw})
		case out.Accepted:
			verdict = "accepted"
			atomic.AddInt64(&accepted, 1)
			for _, p := range out.Problems {
				key := p
				if strings.HasPrefix(p, "merge:") {
					key = strings.SplitN(p, " ", 2)[0]
				}
				run.Violation("C17 accepted-but-unsafe "+key, fmt.Sprintf("accepted configuration violates the post-condition: %s; document: %s", p, raw), c17Case{Shape: c.Shape, Devs: c.Devs, Doc: raw})
			}
		}
		shape := c.Shape
		if strings.HasPrefix(shape, "fixture:") {
			shape = "fixture"
		}
		run.Class(fmt.Sprintf("%s|%s|%s", shape, verdict, strings.Join(names, "+")))
		if i%4001 == 1 {
			run.Sample(map[string]any{"shape": c.Shape, "deviations": c.Devs, "verdict": verdict})
		}
	})
	run.Evals, run.States, run.Transitions, run.Traces = evals, evals, evals, evals
	run.Extra["accepted"] = accepted
	run.Extra["fixtures"] = len(fixtures)
}

func c17AllPaths(v any, prefix string) []string {
	var out []string
	switch c := v.(type) {
	case map[string]any:
		var ks []string
		for k := range c {
			ks = append(ks, k)
		}
		sort.Strings(ks)
		for _, k := range ks {
			p := k
			if prefix != "" {
				p = prefix + "." + k
			}
			out = append(out, p)
			out = append(out, c17AllPaths(c[k], p)...)
		}
	case []any:
		for i, e := range c {
			out = append(out, c17AllPaths(e, fmt.Sprintf("%s.%d", prefix, i))...)
		}
	}
	return out
}

func c17DeletePath(v any, parts []string) bool {
	for i, p := range parts {
		last := i == len(parts)-1
		switch c := v.(type) {
		case map[string]any:
			if last {
				if _, ok := c[p]; !ok {
					return false
				}
				delete(c, p)
				return true
			}
			v = c[p]
		case []any:
			var idx int
			fmt.Sscanf(p, "%d", &idx)
			if idx >= len(c) || last {
				return false
			}
			v = c[idx]
		default:
			return false
		}
	}
	return false
}

func c17ReplayFn(path string) int {
	var c c17Case
	if _, err := loadReplay(path, &c); err != nil {
		fmt.Println(err)
		return 2
	}
	out, _ := c17RunCase(c)
	return replayVerdict("C17", out.Panic != "" || len(out.Problems) > 0, fmt.Sprintf("panic=%q site=%s accepted=%v problems=%v err=%q", out.Panic, out.Site, out.Accepted, out.Problems, out.Err))
}

func init() { Registry["C17"] = Prop{Run: c17Run, Replay: c17ReplayFn} }

package props

import (
	"encoding/base64"
	"fmt"
	"net/url"
	"strings"
	"time"

	"github.com/istio-ecosystem/authservice/zzverif/ev"
	"github.com/istio-ecosystem/authservice/zzverif/seqx"
	"github.com/istio-ecosystem/authservice/zzverif/world"
)

// C18: OIDC filters are isolated from one another.

type c18Layout struct {
	Name    string             `json:"name"`
	Filters []world.FilterSpec `json:"filters"`
}

func c18Layouts(tier string) []c18Layout {
	f := func(name, prefix, redis string, abs, idle int) world.FilterSpec {
		return world.FilterSpec{Name: name, Realm: "idp-" + name + ".test", ClientID: "client-" + name, Secret: "secret-" + name,
			CookiePrefix: prefix, Redis: redis, Abs: abs, Idle: idle}
	}
	pw := func(x world.FilterSpec) world.FilterSpec { x.RedisPassword = "p4ss-w0rd"; return x }
	cn := func(x world.FilterSpec, name string) world.FilterSpec { x.ChainName = name; return x }
	ls := []c18Layout{
		{"memory shared, same cookie name", []world.FilterSpec{f("a", "", "", 0, 0), f("b", "", "", 0, 0)}},
		{"memory shared, distinct prefixes", []world.FilterSpec{f("a", "pa", "", 0, 0), f("b", "pb", "", 0, 0)}},
		{"memory shared, default name + prefix", []world.FilterSpec{f("a", "", "", 0, 0), f("b", "pb", "", 0, 0)}},
		{"one redis, distinct prefixes, different timeouts", []world.FilterSpec{f("a", "pa", "r1", 3600, 600), f("b", "pb", "r1", 100, 50)}},
		{"two redis servers, distinct prefixes", []world.FilterSpec{f("a", "pa", "r1", 3600, 0), f("b", "pb", "r2", 100, 0)}},
		{"one redis server, two databases", []world.FilterSpec{f("a", "pa", "r1/0", 3600, 0), f("b", "pb", "r1/1", 100, 50)}},
		{"memory + password-protected redis", []world.FilterSpec{f("a", "pa", "", 0, 0), pw(f("b", "pb", "r1", 100, 50))}},
		{"two redis servers, chains with the same name", []world.FilterSpec{cn(f("a", "pa", "r1", 3600, 0), "tenant"), cn(f("b", "pb", "r2", 100, 0), "tenant")}},
	}
	d := func(name, prefix string) world.FilterSpec {
		x := f(name, prefix, "", 0, 0)
		x.Discovery, x.Logout, x.ViaOverride = true, true, true
		return x
	}
	ls = append(ls, c18Layout{"default+overrides, discovery, shared logout block", []world.FilterSpec{d("a", "pa"), d("b", "pb")}})
	if tier == "thorough" {
		ls = append(ls,
			c18Layout{"three filters memory", []world.FilterSpec{f("a", "pa", "", 0, 0), f("b", "pb", "", 0, 0), f("c", "", "", 0, 0)}},
			c18Layout{"one redis, same cookie name", []world.FilterSpec{f("a", "", "r1", 0, 0), f("b", "", "r1", 0, 0)}},
			c18Layout{"memory + redis", []world.FilterSpec{f("a", "pa", "", 0, 0), f("b", "pb", "r1", 200, 100)}},
		)
	}
	return ls
}

type c18Sys struct {
	sw     *world.SWorld
	layout c18Layout
	// sessions logged in so far: filter index -> (sid, cookie name)
	sess map[int][2]string
	err  error
}

func (s *c18Sys) Close() {
	if s.sw != nil {
		s.sw.Close()
	}
}

type c18Replay struct {
	Layout  c18Layout    `json:"layout"`
	History []seqx.Event `json:"history"`
}

// which realm issued token t (by ledger)?
func (s *c18Sys) issuer(tok string) string {
	for name, idp := range s.sw.Realms {
		idp := idp
		if _, ok := idp.Issued[tok]; ok {
			return name
		}
	}
	return ""
}

func c18Model(run *ev.Run, layout c18Layout) seqx.Model {
	var evs []seqx.Event
	for i := range layout.Filters {
		evs = append(evs, seqx.Event{Kind: "login", N: i})
	}
	for j, fj := range layout.Filters {
		if fj.Logout {
			evs = append(evs, seqx.Event{Kind: "logout", N: j})
		}
	}
	for i := range layout.Filters {
		for j := range layout.Filters {
			for _, how := range []string{"as-issued", "renamed", "both-names"} {
				if i == j && how != "as-issued" {
					continue
				}
				evs = append(evs, seqx.Event{Kind: "probe", N: i, Adv: j, Arg: how})
			}
		}
	}
	return seqx.Model{
		Serial: true, // one in-memory network / real loopback redis per process
		New: func() seqx.Sys {
			sw, err := world.NewSWorld(layout.Filters, nil)
			return &c18Sys{sw: sw, layout: layout, sess: map[int][2]string{}, err: err}
		},
		Apply: func(sy seqx.Sys, e seqx.Event, hist []seqx.Event, live bool) {
			s := sy.(*c18Sys)
			full := c18Replay{layout, append(append([]seqx.Event{}, hist...), e)}
			if s.err != nil {
				if live {
					run.HarnessError("C18 world: " + s.err.Error())
				}
				return
			}
			if live {
				defer func() {
					if sig, msg := c18ForeignCredentials(s.sw, layout.Filters); sig != "" {
						run.Violation(sig, msg, full)
					}
				}()
			}
			switch e.Kind {
			case "login":
				f := layout.Filters[e.N]
				sid, name, err := s.sw.Login(f)
				if err != nil {
					if live {
						run.Violation("C18 login-fails filter="+f.Name, err.Error(), full)
					}
					return
				}
				s.sess[e.N] = [2]string{sid, name}
				if !live {
					return
				}
				run.Class("login|" + f.Name)
				// credentials and endpoints: the code exchange reached this filter's realm with this filter's credentials
				idp := s.sw.Realms[f.Realm]
				last := idp.TokenReqs[len(idp.TokenReqs)-1]
				if last.Result != "ok" || !last.BasicOK {
					run.Violation("C18 wrong-credentials-or-endpoint filter="+f.Name, fmt.Sprintf("code exchange at realm %s: %s basic=%v", f.Realm, last.Result, last.BasicOK), full)
				}
				// effective expiry of the new session (Redis: TTL is observable)
				if f.Redis != "" {
					rn, rdb := world.RedisNameDB(f.Redis)
					ttl := s.sw.Redis[rn].DB(rdb).TTL(world.RedisKeyFor(s.sw.Redis[rn], rdb, sid))
					want := time.Duration(0)
					switch {
					case f.Abs > 0 && f.Idle > 0:
						want = time.Duration(min(f.Abs, f.Idle)) * time.Second
					case f.Abs > 0:
						want = time.Duration(f.Abs) * time.Second
					case f.Idle > 0:
						want = time.Duration(f.Idle) * time.Second
					}
					diff := ttl - want
					if diff < 0 {
						diff = -diff
					}
					if diff > 3*time.Second {
						shared := "same-uri-as-another-filter"
						for k, o := range layout.Filters {
							_ = k
							if o.Name != f.Name && o.Redis == f.Redis {
								shared = "same-uri-as-another-filter"
								break
							}
							shared = "own-uri"
						}
						run.Violation(fmt.Sprintf("C18 session-governed-by-other-filters-timeouts filter=%s store=redis %s", f.Name, shared),
							fmt.Sprintf("session of filter %s (absolute=%ds idle=%ds) has TTL %v in Redis, expected about %v: another filter's time-outs govern it", f.Name, f.Abs, f.Idle, ttl, want), full)
					}
				}
			case "logout":
				fj := layout.Filters[e.N]
				cookies := map[string]string{}
				if se, ok := s.sess[e.N]; ok {
					cookies[se[1]] = se[0]
					delete(s.sess, e.N)
				}
				res := s.sw.Do(world.SReq{Tenant: fj.Name, Path: s.sw.LogoutPath(fj), Cookies: cookies})
				if !live {
					return
				}
				run.Class(fmt.Sprintf("logout|%s|cookie=%v|http=%d", fj.Name, len(cookies) > 0, res.HTTPStatus))
				if res.Err != "" || res.Panic != "" {
					run.Violation("C18 logout-error filter="+fj.Name, res.Err+res.Panic, full)
					return
				}
				want := "http://" + s.sw.RealmHost(fj) + "/logout"
				if !world.IsRedirect(res.HTTPStatus) || res.Location != want {
					run.Violation("C18 logout-redirects-to-foreign-end-session-endpoint", fmt.Sprintf("logout at filter %s redirects to %q, its own provider's end-session endpoint is %q", fj.Name, res.Location, want), full)
				}
			case "probe":
				i, j := e.N, e.Adv
				se, ok := s.sess[i]
				if !ok {
					return
				}
				fi, fj := layout.Filters[i], layout.Filters[j]
				cookies := map[string]string{}
				switch e.Arg {
				case "as-issued":
					cookies[se[1]] = se[0]
				case "renamed":
					cookies[world.CookieName(fj.CookiePrefix)] = se[0]
				case "both-names":
					cookies[se[1]] = se[0]
					cookies[world.CookieName(fj.CookiePrefix)] = se[0]
				}
				res := s.sw.Do(world.SReq{Tenant: fj.Name, Path: "/" + fj.Name + "/app", Cookies: cookies})
				if ns := s.sw.Realms; ns != nil && !res.OK && res.Location != "" {
					// a login redirect was answered; the old session may have been destroyed
					if i != j {
						// did the foreign filter destroy the session? (observable through the owner)
					}
				}
				if !live {
					return
				}
				run.Class(fmt.Sprintf("probe|%s->%s|%s|ok=%v", fi.Name, fj.Name, e.Arg, res.OK))
				if res.Panic != "" || res.Err != "" {
					run.Incident("error: " + res.Panic + res.Err)
					return
				}
				if res.OK && i != j {
					store := "memory"
					if fj.Redis != "" {
						store = "redis"
					}
					samePrefix := fi.CookiePrefix == fj.CookiePrefix
					cfgStore := "same"
					if fi.Redis != fj.Redis {
						cfgStore = "different"
					}
					run.Violation(fmt.Sprintf("C18 honour store=%s via=%s same-cookie-name=%v configured-stores=%s", store, e.Arg, samePrefix, cfgStore),
						fmt.Sprintf("a session created through filter %s is answered OK by filter %s (cookie %s); forwarded tokens were issued by realm %s",
							fi.Name, fj.Name, e.Arg, s.forwardedIssuer(res)), full)
				}
				if res.OK {
					if iss := s.forwardedIssuer(res); iss != fj.Realm {
						run.Violation("C18 forwards-foreign-tokens", fmt.Sprintf("filter %s forwarded tokens issued by realm %q", fj.Name, iss), full)
					}
				}
				if !res.OK && res.Location != "" {
					host := "http://" + strings.SplitN(strings.TrimPrefix(res.Location, "http://"), "/", 2)[0]
					if !strings.Contains(host, fj.Realm) || !strings.Contains(res.Location, "client_id="+fj.ClientID) {
						run.Violation("C18 login-redirect-to-foreign-provider", fmt.Sprintf("filter %s redirects to %s", fj.Name, res.Location), full)
					}
				}
				if i == j && !res.OK {
					run.Violation("C18 own-session-not-honoured filter="+fj.Name, fmt.Sprintf("filter %s does not honour its own fresh session (code %v)", fj.Name, res.Code), full)
				}
			}
		},
		Enabled: func(sy seqx.Sys, hist []seqx.Event, fresh func() seqx.Sys) []seqx.Event {
			s := sy.(*c18Sys)
			var out []seqx.Event
			for _, e := range evs {
				if e.Kind == "logout" {
					out = append(out, e)
					continue
				}
				if e.Kind == "login" {
					if _, done := s.sess[e.N]; !done {
						out = append(out, e)
					}
				} else if _, ok := s.sess[e.N]; ok {
					out = append(out, e)
				}
			}
			return out
		},
		Canon: func(sy seqx.Sys) string {
			s := sy.(*c18Sys)
			var sb strings.Builder
			for i, f := range layout.Filters {
				se, ok := s.sess[i]
				alive := false
				if ok {
					// is the session still present in its store?
					if f.Redis != "" {
						rn, rdb := world.RedisNameDB(f.Redis)
						alive = world.RedisKeyFor(s.sw.Redis[rn], rdb, se[0]) != ""
					} else {
						alive = true // memory: not observable without a request; probes do not remove fresh sessions
					}
				}
				fmt.Fprintf(&sb, "%s:%v/%v;", f.Name, ok, alive)
			}
			// configuration state that discovery fills in lazily (which filter was served first matters)
			for _, ch := range s.sw.Cfg.GetChains() {
				for _, fl := range ch.GetFilters() {
					if o := fl.GetOidc(); o != nil {
						fmt.Fprintf(&sb, "|%s:%v:%v", ch.GetName(), o.GetAuthorizationUri() != "", strings.Contains(o.GetLogout().GetRedirectUri(), "idp-"+ch.GetName()))
					}
				}
			}
			return sb.String() + fmt.Sprint(len(hist0(s)))
		},
	}
}

func hist0(s *c18Sys) []int { return nil }

func (s *c18Sys) forwardedIssuer(res world.Result) string {
	for _, h := range res.Headers {
		if strings.EqualFold(h[0], "authorization") {
			return s.issuer(strings.TrimPrefix(h[1], "Bearer "))
		}
	}
	return ""
}

// c18ForeignCredentials: every token request (code exchange or refresh) that reached a filter's provider carries that
// filter's client credentials and nobody else's - neither in the Authorization header nor in the form.
func c18ForeignCredentials(sw *world.SWorld, filters []world.FilterSpec) (string, string) {
	for _, f := range filters {
		idp := sw.Realms[f.Realm]
		if idp == nil {
			continue
		}
		for k, tr := range idp.TokenReqs {
			hay := tr.Form.Encode()
			for name, vs := range tr.Header {
				for _, v := range vs {
					hay += "\n" + name + ": " + v
					if rest, ok := strings.CutPrefix(v, "Basic "); ok {
						if b, err := base64.StdEncoding.DecodeString(rest); err == nil {
							hay += "\n" + string(b)
						}
					}
				}
			}
			for _, g := range filters {
				if g.Realm == f.Realm || g.Secret == f.Secret {
					continue
				}
				if strings.Contains(hay, g.Secret) || strings.Contains(hay, url.QueryEscape(g.Secret)) {
					return "C18 foreign-credentials-sent-to-provider grant=" + tr.Grant,
						fmt.Sprintf("token request #%d (%s) to the provider of filter %s carries the client secret of filter %s", k, tr.Grant, f.Name, g.Name)
				}
			}
		}
	}
	return "", ""
}

// real-time replay on the memory store (one-sided: slowness can only delay the deadline, never fail it)
func c18RealTime(run *ev.Run) {
	// (filter a's tokens live 2 s: its request after the pause is a refresh at a's provider, after b's code exchange)
	fa := world.FilterSpec{Name: "a", Realm: "idp-a.test", ClientID: "client-a", Secret: "secret-of-a", CookiePrefix: "pa", Abs: 3600, Idle: 3600, TokenLife: 2}
	fb := world.FilterSpec{Name: "b", Realm: "idp-b.test", ClientID: "client-b", Secret: "secret-of-b", CookiePrefix: "pb", Abs: 2, Idle: 2}
	for _, order := range [][]world.FilterSpec{{fa, fb}, {fb, fa}} {
		sw, err := world.NewSWorld(order, nil)
		if err != nil {
			run.HarnessError("C18 real-time world: " + err.Error())
			return
		}
		sa, na, err1 := sw.Login(fa)
		sb, nb, err2 := sw.Login(fb)
		if err1 != nil || err2 != nil {
			run.HarnessError(fmt.Sprintf("C18 real-time login: %v %v", err1, err2))
			sw.Close()
			return
		}
		time.Sleep(4 * time.Second)
		ra := sw.Do(world.SReq{Tenant: "a", Path: "/a/app", Cookies: map[string]string{na: sa}})
		rb := sw.Do(world.SReq{Tenant: "b", Path: "/b/app", Cookies: map[string]string{nb: sb}})
		first := order[0].Name
		run.Class(fmt.Sprintf("realtime|first=%s|a-ok=%v|b-ok=%v", first, ra.OK, rb.OK))
		rp := c18Replay{Layout: c18Layout{Name: "real-time memory first=" + first, Filters: order}}
		if sig, msg := c18ForeignCredentials(sw, order); sig != "" {
			run.Violation(sig, msg, rp)
		}
		nRefresh := 0
		for _, tr := range sw.Realms[fa.Realm].TokenReqs {
			if tr.Grant == "refresh_token" {
				nRefresh++
			}
		}
		run.Class(fmt.Sprintf("realtime|refreshes-at-a=%d", nRefresh))
		if rb.OK {
			run.Violation("C18 session-governed-by-other-filters-timeouts filter=b store=memory first="+first,
				"filter b (absolute=idle=2 s) still honours its session 4 s after login: the shared memory store runs with another filter's time-outs", rp)
		}
		if !ra.OK {
			run.Violation("C18 session-governed-by-other-filters-timeouts filter=a store=memory first="+first,
				"filter a (3600 s) lost its session after 4 s: the shared memory store runs with filter b's 2 s time-outs", rp)
		}
		sw.Close()
	}
}

func c18Run(run *ev.Run) {
	run.Rule = "server level: the service is assembled as cmd/main.go does (real loader on a generated JSON document, real session-store factory PreRun, real ExtAuthZFilter.Check with per-check handlers, real clock and id generator) around one simulated provider realm per filter reachable over an in-memory network; BFS over {login at filter i, request to chain j carrying filter i's session cookie as issued / renamed to chain j's cookie name / under both names} for layouts {shared memory, one Redis, two Redis} x {same cookie name, distinct prefixes} x differing time-outs; oracle: chain j answers OK only for sessions logged in through chain j and forwards realm j's tokens; redirects and token requests use chain j's provider and credentials; Redis TTL after login equals the filter's own time-outs; plus a real-time replay (2 s vs 3600 s on the shared memory store, both filter orders); class = (event, filters, variant, verdict)"
	run.Assumptions = []string{"server-level worlds use the real clock, so token expiry and refresh are not part of these histories", "the real-time replay is one-sided: it only asserts 'not OK after 4 s' for a 2 s limit and 'OK' for a 3600 s limit"}
	var total seqx.Stats
	for _, l := range c18Layouts(run.Tier) {
		m := c18Model(run, l)
		m.MaxDepth = len(l.Filters) + 2
		if strings.Contains(l.Name, "overrides") {
			m.MaxDepth = len(l.Filters) + 3
		}
		st := seqx.Explore(run, m)
		total.States += st.States
		total.Transitions += st.Transitions
		total.Histories += st.Histories
		if !st.Complete {
			run.Cap("layout not completed: " + l.Name)
		}
	}
	c18RealTime(run)
	run.States, run.Transitions, run.Traces, run.Evals = total.States, total.Transitions, total.Histories, total.Transitions
}

func c18ReplayFn(path string) int {
	var rp c18Replay
	if _, err := loadReplay(path, &rp); err != nil {
		fmt.Println(err)
		return 2
	}
	run := ev.NewRun("C18", "replay", "/nonexistent")
	if len(rp.History) == 0 {
		c18RealTime(run)
		return replayVerdict("C18", run.Violations() > 0, "")
	}
	s := seqx.Replay(c18Model(run, rp.Layout), rp.History)
	s.Close()
	return replayVerdict("C18", run.Violations() > 0, "")
}

func init() { Registry["C18"] = Prop{Run: c18Run, Replay: c18ReplayFn} }

package props

import (
	"context"
	"encoding/base64"
	"errors"
	"fmt"
	"os"
	"sort"
	"strings"
	"time"

	corev1 "k8s.io/api/core/v1"
	metav1 "k8s.io/apimachinery/pkg/apis/meta/v1"
	"k8s.io/apimachinery/pkg/types"
	ctrl "sigs.k8s.io/controller-runtime"
	"sigs.k8s.io/controller-runtime/pkg/client"
	"sigs.k8s.io/controller-runtime/pkg/client/fake"
	"sigs.k8s.io/controller-runtime/pkg/client/interceptor"

	configv1 "github.com/istio-ecosystem/authservice/config/gen/go/v1"
	oidcv1 "github.com/istio-ecosystem/authservice/config/gen/go/v1/oidc"
	"github.com/istio-ecosystem/authservice/internal/k8s"
	"github.com/istio-ecosystem/authservice/zzverif/ev"
	"github.com/istio-ecosystem/authservice/zzverif/hidden"
	"github.com/istio-ecosystem/authservice/zzverif/seqx"
	"github.com/istio-ecosystem/authservice/zzverif/world"
)

// C19: Kubernetes client-secret changes reach exactly the filters that reference them.

type c19Spec struct {
	Sources []string `json:"sources"` // per filter: "literal" | "ref:<name>" | "ref:<ns>/<name>"
}

type c19Sys struct {
	spec    c19Spec
	cfg     *configv1.Config
	filters []*oidcv1.OIDCConfig
	kube    client.Client
	ctl     *k8s.SecretController
	ref     map[string]string // secret name -> last non-empty value reconciled while not deleting
	initial []string
	// the long-lived service objects (ExtAuthZFilter, TLS pool, key source, store factory) over the same configuration
	// object, assembled when the first request arrives
	later   map[string]bool // objects whose deletion timestamp reads as one hour ahead
	sw      *world.SWorld
	fspecs  []world.FilterSpec
	checked []bool // filters that have served a request (a cached handler would date from then)
}

func (s *c19Sys) Close() {
	if s.sw != nil {
		s.sw.Close()
	}
}

func (s *c19Sys) service() *world.SWorld {
	if s.sw == nil {
		for i := range s.filters {
			s.fspecs = append(s.fspecs, world.FilterSpec{Name: fmt.Sprintf("c%d", i), Realm: fmt.Sprintf("idp%d.test", i), ClientID: world.DefaultClientID})
		}
		sw, err := world.NewSWorldOnConfig(s.cfg, s.fspecs)
		if err != nil {
			panic(err)
		}
		s.sw = sw
		for i := range s.filters {
			i := i
			// each filter's provider knows the client secret the reference says the filter has NOW
			sw.Realms[s.fspecs[i].Realm].Secret = func() string { return c19Want(s, s.spec, i) }
		}
		s.checked = make([]bool, len(s.filters))
	}
	return s.sw
}

// tokenAuthHeader performs one login at filter i through the long-lived ExtAuthZFilter and returns the Authorization
// header its token request carried ("" when no token request was made).
func (s *c19Sys) tokenAuthHeader(i int) string {
	sw := s.service()
	realm := s.fspecs[i].Realm
	n0 := sw.TokenRequests(realm)
	_, _, _ = sw.Login(s.fspecs[i])
	s.checked[i] = true
	if sw.TokenRequests(realm) == n0 {
		return ""
	}
	return sw.LastTokenAuthorization(realm)
}

func c19Filter(i int, src string) *oidcv1.OIDCConfig {
	o := &oidcv1.OIDCConfig{
		AuthorizationUri: "https://idp.test/auth", TokenUri: "https://idp.test/token", CallbackUri: world.CallbackURI,
		ClientId: world.DefaultClientID, Scopes: []string{"openid"},
		IdToken: &oidcv1.TokenConfig{Header: "authorization", Preamble: "Bearer"},
	}
	switch {
	case src == "literal":
		o.ClientSecretConfig = &oidcv1.OIDCConfig_ClientSecret{ClientSecret: fmt.Sprintf("literal-%d", i)}
	case strings.HasPrefix(src, "ref:"):
		r := strings.TrimPrefix(src, "ref:")
		ns, name := "", r
		if k := strings.Index(r, "/"); k >= 0 {
			ns, name = r[:k], r[k+1:]
		}
		o.ClientSecretConfig = &oidcv1.OIDCConfig_ClientSecretRef{ClientSecretRef: &oidcv1.OIDCConfig_SecretReference{Namespace: ns, Name: name}}
	}
	return o
}

func newC19Sys(spec c19Spec) (*c19Sys, error) {
	world.InitKeys()
	s := &c19Sys{spec: spec, ref: map[string]string{}}
	s.cfg = &configv1.Config{}
	for i, src := range spec.Sources {
		f := c19Filter(i, src)
		f.JwksConfig = &oidcv1.OIDCConfig_Jwks{Jwks: world.JWKS(world.KeyEC)}
		s.filters = append(s.filters, f)
		s.initial = append(s.initial, f.GetClientSecret())
		s.cfg.Chains = append(s.cfg.Chains, &configv1.FilterChain{Name: fmt.Sprintf("c%d", i),
			Filters: []*configv1.Filter{{Type: &configv1.Filter_Oidc{Oidc: f}}}})
	}
	// reads of an object marked in s.later see its deletion timestamp an hour ahead (graceful deletion / clock skew;
	// the fake API server itself only ever stamps "now")
	s.later = map[string]bool{}
	s.kube = fake.NewClientBuilder().WithInterceptorFuncs(interceptor.Funcs{
		Get: func(ctx context.Context, c client.WithWatch, key client.ObjectKey, obj client.Object, opts ...client.GetOption) error {
			if err := c.Get(ctx, key, obj, opts...); err != nil {
				return err
			}
			if s.later[key.Namespace+"/"+key.Name] && !obj.GetDeletionTimestamp().IsZero() {
				when := metav1.NewTime(time.Now().Add(time.Hour))
				obj.SetDeletionTimestamp(&when)
			}
			return nil
		}}).Build()
	ctl, err := k8s.VerifNewController(s.cfg, "default", s.kube)
	if err != nil {
		return nil, err
	}
	s.ctl = ctl
	return s, nil
}

func c19RefName(src string) string {
	if !strings.HasPrefix(src, "ref:") {
		return ""
	}
	r := strings.TrimPrefix(src, "ref:")
	if k := strings.Index(r, "/"); k >= 0 {
		return r[k+1:]
	}
	return r
}

var c19Objects = [][2]string{{"default", "s1"}, {"default", "s2"}, {"default", "unrelated"}, {"other", "s1"}}

type c19Replay struct {
	Spec    c19Spec      `json:"spec"`
	History []seqx.Event `json:"history"`
}

func (s *c19Sys) get(ns, name string) *corev1.Secret {
	sec := &corev1.Secret{}
	if err := s.kube.Get(context.Background(), types.NamespacedName{Namespace: ns, Name: name}, sec); err != nil {
		return nil
	}
	return sec
}

func (s *c19Sys) objState(ns, name string) string {
	sec := s.get(ns, name)
	if sec == nil {
		return "absent"
	}
	v, ok := sec.Data["client-secret"]
	st := "nokey"
	if ok {
		st = "val=" + string(v)
	}
	if !sec.DeletionTimestamp.IsZero() {
		st += ",deleting"
		if sec.DeletionTimestamp.After(time.Now()) {
			st += "-later"
		}
	}
	return st
}

func c19Model(run *ev.Run, spec c19Spec) seqx.Model {
	var evs []seqx.Event
	for _, o := range c19Objects {
		for _, v := range []string{"x", "y", "empty", "nokey"} {
			evs = append(evs, seqx.Event{Kind: "put", Who: o[0], Arg: o[1], Arg2: v})
		}
		evs = append(evs, seqx.Event{Kind: "mark-deleting", Who: o[0], Arg: o[1]}, seqx.Event{Kind: "delete", Who: o[0], Arg: o[1]},
			seqx.Event{Kind: "reconcile", Who: o[0], Arg: o[1]})
		// the object in deleting state with a deletion timestamp an hour ahead (graceful deletion, clock skew) and new data
		evs = append(evs, seqx.Event{Kind: "put-deleting-later", Who: o[0], Arg: o[1], Arg2: "z"})
	}
	// a request served by filter i (no cookie: a login redirect) - whatever the service keeps per filter dates from here
	for i := range spec.Sources {
		evs = append(evs, seqx.Event{Kind: "check", N: i})
	}
	return seqx.Model{
		New: func() seqx.Sys {
			s, err := newC19Sys(spec)
			if err != nil {
				panic(err)
			}
			return s
		},
		Apply: func(sy seqx.Sys, e seqx.Event, hist []seqx.Event, live bool) {
			s := sy.(*c19Sys)
			ctx := context.Background()
			ns, name := e.Who, e.Arg
			switch e.Kind {
			case "check":
				sw := s.service()
				f := s.fspecs[e.N]
				sw.Do(world.SReq{Tenant: f.Name, Path: "/" + f.Name + "/app"})
				s.checked[e.N] = true
			case "put":
				data := map[string][]byte{"other-key": []byte("z")}
				switch e.Arg2 {
				case "empty":
					data["client-secret"] = []byte{}
				case "nokey":
				default:
					data["client-secret"] = []byte(e.Arg2 + "-" + name)
				}
				if cur := s.get(ns, name); cur != nil {
					cur.Data = data
					_ = s.kube.Update(ctx, cur)
				} else {
					_ = s.kube.Create(ctx, &corev1.Secret{ObjectMeta: metav1.ObjectMeta{Namespace: ns, Name: name, Finalizers: []string{"verif/hold"}}, Data: data})
				}
			case "put-deleting-later":
				// new data, then deletion with a grace period: the object is there, deleting, its timestamp in the future
				data := map[string][]byte{"client-secret": []byte(e.Arg2 + "-" + name)}
				if cur := s.get(ns, name); cur != nil {
					if !cur.DeletionTimestamp.IsZero() {
						break // already deleting: its data can no longer change
					}
					cur.Data = data
					_ = s.kube.Update(ctx, cur)
				} else {
					_ = s.kube.Create(ctx, &corev1.Secret{ObjectMeta: metav1.ObjectMeta{Namespace: ns, Name: name, Finalizers: []string{"verif/hold"}}, Data: data})
				}
				if cur := s.get(ns, name); cur != nil {
					_ = s.kube.Delete(ctx, cur)
					s.later[ns+"/"+name] = true
				}
			case "mark-deleting":
				if cur := s.get(ns, name); cur != nil {
					_ = s.kube.Delete(ctx, cur) // finalizer present: only the deletion timestamp is set
				}
			case "delete":
				delete(s.later, ns+"/"+name)
				if cur := s.get(ns, name); cur != nil {
					cur.Finalizers = nil
					_ = s.kube.Update(ctx, cur)
					if cur2 := s.get(ns, name); cur2 != nil {
						_ = s.kube.Delete(ctx, cur2)
					}
				}
			case "reconcile":
				// reference first (it reads the object as it is now)
				if ns == "default" {
					referenced := false
					for _, src := range spec.Sources {
						if c19RefName(src) == name {
							referenced = true
						}
					}
					if sec := s.get(ns, name); referenced && sec != nil && sec.DeletionTimestamp.IsZero() {
						if v, ok := sec.Data["client-secret"]; ok && len(v) > 0 {
							s.ref[name] = string(v)
						}
					}
				}
				_, err := s.ctl.Reconcile(ctx, ctrl.Request{NamespacedName: types.NamespacedName{Namespace: ns, Name: name}})
				if err != nil && live {
					run.Violation("C19 reconcile-error", fmt.Sprintf("Reconcile(%s/%s) returned %v", ns, name, err), c19Replay{spec, append(append([]seqx.Event{}, hist...), e)})
				}
			}
			if !live {
				return
			}
			full := c19Replay{spec, append(append([]seqx.Event{}, hist...), e)}
			run.Class(fmt.Sprintf("%s|%s/%s|%s", e.Kind, ns, name, e.Arg2))
			for i, f := range s.filters {
				src := spec.Sources[i]
				want := s.initial[i]
				if n := c19RefName(src); n != "" {
					if v, ok := s.ref[n]; ok {
						want = v
					}
				}
				got := f.GetClientSecret()
				if got != want {
					kind := "referencing-filter-not-updated"
					if src == "literal" {
						kind = "literal-filter-changed"
					} else if _, ok := s.ref[c19RefName(src)]; !ok {
						kind = "changed-without-valid-reconcile"
					} else if got != "" && got != s.initial[i] {
						kind = "wrong-value-applied"
					}
					run.Violation(fmt.Sprintf("C19 %s event=%s", kind, e.Kind),
						fmt.Sprintf("after %s %s/%s %s: filter %d (%s) has client secret %q, reference %q", e.Kind, ns, name, e.Arg2, i, src, got, want), full)
				}
			}
			// what reaches the token endpoint: a real callback through a handler built on the same config object
			if e.Kind == "reconcile" {
				for i, f := range s.filters {
					if f.GetClientSecret() == "" {
						continue
					}
					if hdr := s.tokenAuthHeader(i); hdr != "" {
						want := "Basic " + base64.StdEncoding.EncodeToString([]byte(f.GetClientId()+":"+c19Want(s, spec, i)))
						if hdr != want {
							run.Violation("C19 token-request-uses-stale-secret", fmt.Sprintf("filter %d: Authorization at the token endpoint is not Basic(client_id:%q)", i, c19Want(s, spec, i)), full)
						}
					}
				}
			}
		},
		Enabled: func(sy seqx.Sys, hist []seqx.Event, fresh func() seqx.Sys) []seqx.Event { return evs },
		Canon: func(sy seqx.Sys) string {
			s := sy.(*c19Sys)
			var sb strings.Builder
			for _, o := range c19Objects {
				fmt.Fprintf(&sb, "%s/%s=%s;", o[0], o[1], s.objState(o[0], o[1]))
			}
			for _, f := range s.filters {
				fmt.Fprintf(&sb, "|%s", f.GetClientSecret())
			}
			var ks []string
			for k, v := range s.ref {
				ks = append(ks, k+"="+v)
			}
			sort.Strings(ks)
			// private state of the controller (plain-data fields, by reflection): a state abstraction that ignored
			// it would merge states with different futures
			svc := "|svc:{}"
			if s.sw != nil {
				svc = "|svc:" + hidden.Dump(s.sw.Check, "log", "cfg", "tlsPool", "jwks", "sessions")
			}
			return sb.String() + "|" + strings.Join(ks, ",") + "|ctl:" + hidden.Dump(s.ctl, "log", "config", "restConf", "manager", "k8sClient", "namespace") + svc
		},
	}
}

func c19Want(s *c19Sys, spec c19Spec, i int) string {
	want := s.initial[i]
	if n := c19RefName(spec.Sources[i]); n != "" {
		if v, ok := s.ref[n]; ok {
			want = v
		}
	}
	return want
}

// c19TokenAuthHeader performs one login through a handler built on cfg and returns the Authorization header
// the token endpoint received.
func c19TokenAuthHeader(cfg *oidcv1.OIDCConfig) string {
	w := world.NewWithConfig(world.Spec{Store: "memory"}, cfg)
	defer w.Close()
	r1 := w.Do(world.Req{Path: "/"}, world.Plan{})
	sid := w.SessionFromSetCookie(r1)
	if _, _, err := w.IdP.Authorize(r1.Location); err != nil {
		return ""
	}
	w.Do(world.Req{Path: c15CallbackPath(w), Cookie: sid}, world.Plan{})
	for _, tr := range w.IdP.TokenReqs {
		for k, v := range tr.Header {
			if strings.EqualFold(k, "authorization") && len(v) > 0 {
				return v[0]
			}
		}
	}
	return ""
}

func c19Specs(tier string) []c19Spec {
	if tier != "thorough" {
		return []c19Spec{
			{[]string{"ref:s1", "ref:s1", "literal"}},
			{[]string{"ref:s1", "ref:s2", "literal"}},
			{[]string{"literal", "ref:default/s2", "ref:s2"}},
		}
	}
	out := c19Specs("quick")
	opts := []string{"literal", "ref:s1", "ref:s2"}
	for _, a := range opts {
		for _, b := range opts {
			for _, c := range opts {
				out = append(out, c19Spec{[]string{a, b, c}})
			}
		}
	}
	out = append(out, c19Spec{[]string{"ref:default/s1", "ref:s1", "ref:default/s2"}})
	return out
}

func c19Run(run *ev.Run) {
	run.Rule = "BFS over histories of Secret events (create/update with value x|y|empty|no key, mark deleting, delete) on {default/s1, default/s2, default/unrelated, other/s1} and of Reconcile deliveries at any time (which covers duplicated and delayed reconciles), on the real SecretController over controller-runtime's fake client, for configurations mapping 3 filters to {literal, ref s1, ref s2}; after every event each filter's client secret is compared with a reference map (last non-empty value reconciled while not deleting), and after every reconcile a real login through a handler on the same config object shows what reaches the token endpoint; plus the start-up refusal of cross-namespace references; class = (event, object, value)"
	run.Assumptions = []string{"the controller runs in namespace 'default'", "reconcile deliveries are explicit events; the informer/cache machinery of controller-runtime is not part of the model"}
	depth := 6
	if run.Tier == "thorough" {
		depth = 7
	}
	if d := os.Getenv("VERIF_C19_DEPTH"); d != "" {
		fmt.Sscanf(d, "%d", &depth)
	}
	var total seqx.Stats
	for si, spec := range c19Specs(run.Tier) {
		m := c19Model(run, spec)
		m.MaxDepth = depth
		if run.Tier == "thorough" && si >= 3 && os.Getenv("VERIF_C19_DEPTH") == "" {
			m.MaxDepth = 6 // all 28 assignments at depth 6; the first three at depth 7
		}
		st := seqx.Explore(run, m)
		total.States += st.States
		total.Transitions += st.Transitions
		total.Histories += st.Histories
		if !st.Complete {
			run.Cap(fmt.Sprintf("spec %v stopped at depth %d of %d", spec.Sources, st.DepthDone, depth))
		}
	}
	// start-up: cross-namespace references are refused, same-namespace ones accepted
	for _, c := range []struct {
		src  string
		fail bool
	}{{"ref:other/s1", true}, {"ref:default/s1", false}, {"ref:s1", false}, {"ref:kube-system/s1", true}} {
		for pos := 0; pos < 3; pos++ {
			srcs := []string{"literal", "ref:s2", "literal"}
			srcs[pos] = c.src
			_, err := newC19Sys(c19Spec{srcs})
			total.Transitions++
			run.Class(fmt.Sprintf("startup|%s|refused=%v", c.src, err != nil))
			if c.fail && (err == nil || !errors.Is(err, k8s.ErrCrossNamespaceSecretRef)) {
				run.Violation("C19 cross-namespace-reference-accepted", fmt.Sprintf("sources %v: start-up did not refuse the cross-namespace reference (err=%v)", srcs, err), c19Replay{Spec: c19Spec{srcs}})
			}
			if !c.fail && err != nil {
				run.Violation("C19 same-namespace-reference-refused", fmt.Sprintf("sources %v: %v", srcs, err), c19Replay{Spec: c19Spec{srcs}})
			}
		}
	}
	// ... and in every combination with other filters' references (same name legally referenced elsewhere, before or after)
	alpha := []string{"literal", "ref:s1", "ref:default/s1", "ref:other/s1", "ref:s2", "ref:kube-system/s2"}
	for a := range alpha {
		for b := range alpha {
			for c := range alpha {
				srcs := []string{alpha[a], alpha[b], alpha[c]}
				foreign := false
				for _, s := range srcs {
					if strings.HasPrefix(s, "ref:other/") || strings.HasPrefix(s, "ref:kube-system/") {
						foreign = true
					}
				}
				_, err := newC19Sys(c19Spec{srcs})
				total.Transitions++
				if foreign && (err == nil || !errors.Is(err, k8s.ErrCrossNamespaceSecretRef)) {
					run.Violation("C19 cross-namespace-reference-accepted", fmt.Sprintf("sources %v: start-up did not refuse the cross-namespace reference (err=%v)", srcs, err), c19Replay{Spec: c19Spec{srcs}})
				}
				if !foreign && err != nil {
					run.Violation("C19 same-namespace-reference-refused", fmt.Sprintf("sources %v: %v", srcs, err), c19Replay{Spec: c19Spec{srcs}})
				}
			}
		}
	}
	run.Class("startup|all-triples")
	// volume: one Secret rotated many times (the object's resourceVersion grows past 9, 99, ...), reconciled after
	// every rotation: each value must arrive - also after a delete + re-create, which restarts the version
	rot := 120
	if run.Tier == "thorough" {
		rot = 1100
	}
	{
		spec := c19Spec{[]string{"ref:s1", "literal", "ref:s1"}}
		s, err := newC19Sys(spec)
		if err != nil {
			run.HarnessError("C19 volume: " + err.Error())
		} else {
			ctx := context.Background()
			for k := 0; k < rot; k++ {
				val := fmt.Sprintf("rot-%d", k)
				if k == rot/2 {
					// half-way: the object is deleted and created anew
					if cur := s.get("default", "s1"); cur != nil {
						cur.Finalizers = nil
						_ = s.kube.Update(ctx, cur)
						if cur2 := s.get("default", "s1"); cur2 != nil {
							_ = s.kube.Delete(ctx, cur2)
						}
					}
				}
				if cur := s.get("default", "s1"); cur != nil {
					cur.Data = map[string][]byte{"client-secret": []byte(val)}
					_ = s.kube.Update(ctx, cur)
				} else {
					_ = s.kube.Create(ctx, &corev1.Secret{ObjectMeta: metav1.ObjectMeta{Namespace: "default", Name: "s1"}, Data: map[string][]byte{"client-secret": []byte(val)}})
				}
				_, _ = s.ctl.Reconcile(ctx, ctrl.Request{NamespacedName: types.NamespacedName{Namespace: "default", Name: "s1"}})
				total.Transitions++
				for _, i := range []int{0, 2} {
					if got := s.filters[i].GetClientSecret(); got != val {
						rv := ""
						if cur := s.get("default", "s1"); cur != nil {
							rv = cur.ResourceVersion
						}
						run.Violation("C19 referencing-filter-not-updated event=reconcile volume",
							fmt.Sprintf("rotation %d of default/s1 (resourceVersion %s): filter %d has client secret %q, the Secret holds %q", k, rv, i, got, val),
							map[string]any{"volume": true, "rotation": k})
						k = rot
						break
					}
				}
			}
			s.Close()
			run.Class(fmt.Sprintf("volume|rotations=%d", rot))
		}
	}
	run.States, run.Transitions, run.Traces, run.Evals = total.States, total.Transitions, total.Histories, total.Transitions
	run.Extra["depth"] = depth
}

func c19ReplayFn(path string) int {
	var rp c19Replay
	if _, err := loadReplay(path, &rp); err != nil {
		fmt.Println(err)
		return 2
	}
	run := ev.NewRun("C19", "replay", "/nonexistent")
	if len(rp.History) == 0 {
		_, err := newC19Sys(rp.Spec)
		return replayVerdict("C19", err == nil, fmt.Sprint(err))
	}
	s := seqx.Replay(c19Model(run, rp.Spec), rp.History)
	s.Close()
	return replayVerdict("C19", run.Violations() > 0, "")
}

func init() { Registry["C19"] = Prop{Run: c19Run, Replay: c19ReplayFn} }

package props

import (
	"context"
	"crypto/tls"
	"crypto/x509"
	"fmt"
	"net/http"
	"os"
	"path/filepath"
	"sort"
	"strings"
	"sync"
	"sync/atomic"
	"time"

	"google.golang.org/protobuf/types/known/durationpb"
	"google.golang.org/protobuf/types/known/structpb"

	oidcv1 "github.com/istio-ecosystem/authservice/config/gen/go/v1/oidc"
	"github.com/istio-ecosystem/authservice/internal"
	inthttp "github.com/istio-ecosystem/authservice/internal/http"
	"github.com/istio-ecosystem/authservice/zzverif/ev"
	"github.com/istio-ecosystem/authservice/zzverif/hidden"
	"github.com/istio-ecosystem/authservice/zzverif/schedx"
	"github.com/istio-ecosystem/authservice/zzverif/seqx"
	"github.com/istio-ecosystem/authservice/zzverif/vsched"
	"github.com/istio-ecosystem/authservice/zzverif/vtime"
	"github.com/istio-ecosystem/authservice/zzverif/world"
)

// C20: IdP TLS trust follows the configuration, including CA rotation.

type c20Cfg struct {
	CA       string `json:"ca"`       // none | inline1 | inline2 | file
	Skip     string `json:"skip"`     // unset | true | false | "true" | "false" | "True" | "1" | "yes" | ""
	Interval string `json:"interval"` // unset | 0 | 50ms | 1s
}

var c20FileSeq int64

func c20TempFile(content string) string {
	dir := os.Getenv("VERIF_SCRATCH")
	if dir == "" {
		dir = os.TempDir()
	}
	p := filepath.Join(dir, fmt.Sprintf("c20-ca-%d-%d.pem", os.Getpid(), atomic.AddInt64(&c20FileSeq, 1)))
	if err := os.WriteFile(p, []byte(content), 0o600); err != nil {
		panic(err)
	}
	return p
}

func (c c20Cfg) oidc(file string) *oidcv1.OIDCConfig {
	o := &oidcv1.OIDCConfig{TokenUri: "https://idp.test/token"}
	switch c.CA {
	case "inline1":
		o.TrustedCaConfig = &oidcv1.OIDCConfig_TrustedCertificateAuthority{TrustedCertificateAuthority: world.CA1.PEM}
	case "inline2":
		o.TrustedCaConfig = &oidcv1.OIDCConfig_TrustedCertificateAuthority{TrustedCertificateAuthority: world.CA2.PEM}
	case "file", "file-empty":
		o.TrustedCaConfig = &oidcv1.OIDCConfig_TrustedCertificateAuthorityFile{TrustedCertificateAuthorityFile: file}
	}
	switch c.Skip {
	case "unset":
	case "true":
		o.SkipVerifyPeerCert = structpb.NewBoolValue(true)
	case "false":
		o.SkipVerifyPeerCert = structpb.NewBoolValue(false)
	default:
		o.SkipVerifyPeerCert = structpb.NewStringValue(strings.Trim(c.Skip, `"`))
	}
	switch c.Interval {
	case "0":
		o.TrustedCertificateAuthorityRefreshInterval = durationpb.New(0)
	case "50ms":
		o.TrustedCertificateAuthorityRefreshInterval = durationpb.New(50 * time.Millisecond)
	case "1s":
		o.TrustedCertificateAuthorityRefreshInterval = durationpb.New(time.Second)
	}
	return o
}

// c20ClientTLS builds the client a filter would build and returns its transport's TLS config.
func c20ClientTLS(pool internal.TLSConfigPool, o *oidcv1.OIDCConfig) (*tls.Config, error) {
	cl, err := inthttp.NewHTTPClient(o, pool, nil)
	if err != nil {
		return nil, err
	}
	tr, ok := cl.Transport.(*http.Transport)
	if !ok {
		return nil, fmt.Errorf("unexpected transport %T", cl.Transport)
	}
	return tr.TLSClientConfig, nil
}

var (
	c20HSMu    sync.Mutex
	c20HSCache = map[string]bool{}
	c20Pools   []*x509.CertPool // keeps pools alive so that pointer identity is a sound cache key
)

// c20Trusts: does a client with cfg accept a server chaining to ca (real handshake; cached per root pool)?
func c20Trusts(cfg *tls.Config, ca *world.CA) bool {
	key := "nil|" + ca.Name
	if cfg != nil {
		key = fmt.Sprintf("%p|%v|%s", cfg.RootCAs, cfg.InsecureSkipVerify, ca.Name)
	}
	c20HSMu.Lock()
	if v, ok := c20HSCache[key]; ok {
		c20HSMu.Unlock()
		return v
	}
	if cfg != nil && cfg.RootCAs != nil {
		c20Pools = append(c20Pools, cfg.RootCAs)
	}
	c20HSMu.Unlock()
	ok := world.Handshake(cfg, ca) == nil
	c20HSMu.Lock()
	c20HSCache[key] = ok
	c20HSMu.Unlock()
	return ok
}

func c20TrustSet(cfg *tls.Config) string { return c20TrustSetAfter(cfg, "") }

// c20TrustSetAfter probes the three servers. Servers the client accepted at its previous probe (prev) are contacted
// FIRST - a failed handshake makes crypto/tls drop a cached session, so probing a rejected server first would hide a
// client that wrongly resumes an old session - and every accepted server is contacted once more at the end so that
// the client is left holding a session with a server it trusts, as a client in service would be.
func c20TrustSetAfter(cfg *tls.Config, prev string) string {
	all := []*world.CA{world.CA1, world.CA2, world.CAX}
	var order []*world.CA
	for _, ca := range all {
		if strings.Contains("+"+prev+"+", "+"+ca.Name[len("verif CA "):]+"+") {
			order = append(order, ca)
		}
	}
	for _, ca := range all {
		found := false
		for _, o := range order {
			if o == ca {
				found = true
			}
		}
		if !found {
			order = append(order, ca)
		}
	}
	ok := map[*world.CA]bool{}
	fresh := false
	for _, ca := range order {
		key := "nil|" + ca.Name
		if cfg != nil {
			key = fmt.Sprintf("%p|%v|%s", cfg.RootCAs, cfg.InsecureSkipVerify, ca.Name)
		}
		c20HSMu.Lock()
		_, cached := c20HSCache[key]
		c20HSMu.Unlock()
		if !cached {
			fresh = true
		}
		ok[ca] = c20Trusts(cfg, ca)
	}
	if fresh {
		for _, ca := range order {
			if ok[ca] {
				_ = world.Handshake(cfg, ca)
			}
		}
	}
	var s []string
	for _, ca := range all {
		if ok[ca] {
			s = append(s, ca.Name[len("verif CA "):])
		}
	}
	return strings.Join(s, "+")
}

func c20SpellsTrue(skip string) (val bool, ambiguous bool) {
	switch skip {
	case "true", `"true"`, `"True"`, `"1"`:
		return true, false
	case `"yes"`:
		return false, true
	}
	return false, false
}

func c20RunConfig(run *ev.Run, c c20Cfg) {
	ctx, cancel := context.WithCancel(context.Background())
	defer cancel()
	pool := internal.NewTLSConfigPool(ctx)
	file := ""
	if c.CA == "file" {
		file = c20TempFile(world.CA1.PEM)
		defer os.Remove(file)
	}
	if c.CA == "file-empty" {
		file = c20TempFile("")
		defer os.Remove(file)
	}
	cfg, err := c20ClientTLS(pool, c.oidc(file))
	if err != nil {
		run.Violation("C20 client-construction-error", fmt.Sprintf("%+v: %v", c, err), c)
		return
	}
	got := c20TrustSet(cfg)
	want := ""
	skip, amb := c20SpellsTrue(c.Skip)
	switch c.CA {
	case "inline1", "file":
		want = "one"
	case "inline2":
		want = "two"
	case "file-empty":
		want = "" // a CA (file) is given: verification is not skipped, and the file holds no certificate to trust yet
	default:
		if skip {
			want = "one+two+unknown"
		}
	}
	run.Class(fmt.Sprintf("ca=%s|skip=%s|trust=%s", c.CA, c.Skip, got))
	if got != want && !(amb && c.CA == "none" && (got == "" || got == "one+two+unknown")) {
		kind := "trusts-too-much"
		if len(got) < len(want) {
			kind = "trusts-too-little"
		}
		run.Violation(fmt.Sprintf("C20 config %s ca=%s skip=%s", kind, c.CA, c.Skip), fmt.Sprintf("%+v: handshakes succeed against {%s}, expected {%s}", c, got, want), c)
	}
	// equal settings share one configuration
	cfg2, _ := c20ClientTLS(pool, c.oidc(file))
	if cfg != cfg2 {
		run.Violation("C20 equal-settings-not-shared", fmt.Sprintf("%+v: two loads of identical settings returned different configurations", c), c)
	}
	vsched.Quiesce()
}

// ---- rotation histories ----

type c20Client struct {
	Setting string
	Last    string // trust set at the previous probe
	Cfg     *tls.Config
	Loaded  string // file content name at first load of this setting
	Seen    string // content the setting's watcher has seen (reference)
	// Applied is the sequence of contents this setting has been given (first load, then every refresh), last four:
	// part of the canonical state, because what a pool did at earlier refreshes may shape what the next one installs
	Applied []string
}

type c20Sys struct {
	ctx     context.Context
	cancel  context.CancelFunc
	pool    internal.TLSConfigPool
	file    string
	content string // one | two | garbage
	valid   string // last valid content written (what a reload can install)
	clients []*c20Client
	byName  map[string]*c20Client
	history map[string]bool // contents the file has held
	tried   map[string]bool // watched settings whose load was attempted (a failed load may leave its watcher behind)
}

func (s *c20Sys) Close() {
	s.cancel()
	vsched.Quiesce()
	os.Remove(s.file)
}

var c20Settings = map[string]c20Cfg{
	"A": {CA: "file", Skip: "unset", Interval: "50ms"},
	"B": {CA: "file", Skip: "unset", Interval: "1s"},
	"C": {CA: "file", Skip: "unset", Interval: "unset"},
	"D": {CA: "file", Skip: "true", Interval: "50ms"},
}

func c20Pem(name string) string {
	switch name {
	case "one":
		return world.CA1.PEM
	case "two":
		return world.CA2.PEM
	case "one+two":
		// a bundle, as during a graceful rotation (cat old.pem new.pem) - and a big one: 70 KiB of annotations (which a PEM
		// reader skips) stand between the two certificates, as in bundles exported with per-certificate comments
		return world.CA1.PEM + strings.Repeat("# subject=CN=some other authority that is only described here, not included\n", 1000) + world.CA2.PEM
	case "empty":
		return "" // a file that exists and has no content yet (a secret that is populated later)
	}
	return "this is not a certificate"
}

// c20Period is the virtual time one "tick" lets pass: the longest refresh interval of the settings (1 s), so that
// every watcher's interval has elapsed - and a watcher that polls more slowly than configured has NOT fired.
const c20Period = time.Second

type c20Replay struct {
	History []seqx.Event `json:"history"`
}

func c20Model(run *ev.Run, settings []string) seqx.Model {
	var evs []seqx.Event
	for _, st := range settings {
		evs = append(evs, seqx.Event{Kind: "load", Arg: st})
	}
	evs = append(evs, seqx.Event{Kind: "rewrite", Arg: "one"}, seqx.Event{Kind: "rewrite", Arg: "two"}, seqx.Event{Kind: "rewrite", Arg: "garbage"}, seqx.Event{Kind: "rewrite", Arg: "empty"}, seqx.Event{Kind: "rewrite", Arg: "one+two"}, seqx.Event{Kind: "tick"},
		// the file is unreadable (removed) for three refresh periods, then back with the content it had, one more period
		seqx.Event{Kind: "outage"})
	return seqx.Model{
		Serial: true,
		New: func() seqx.Sys {
			vtime.SetVirtual(true)
			ctx, cancel := context.WithCancel(context.Background())
			s := &c20Sys{ctx: ctx, cancel: cancel, pool: internal.NewTLSConfigPool(ctx), content: "one", valid: "one", byName: map[string]*c20Client{}, history: map[string]bool{"one": true}}
			s.file = c20TempFile(world.CA1.PEM)
			return s
		},
		Apply: func(sy seqx.Sys, e seqx.Event, hist []seqx.Event, live bool) {
			s := sy.(*c20Sys)
			full := c20Replay{append(append([]seqx.Event{}, hist...), e)}
			switch e.Kind {
			case "load":
				if iv := c20Settings[e.Arg].Interval; iv != "unset" && iv != "0" {
					if s.tried == nil {
						s.tried = map[string]bool{}
					}
					s.tried[e.Arg] = true
				}
				cfg, err := c20ClientTLS(s.pool, c20Settings[e.Arg].oidc(s.file))
				vsched.Quiesce()
				if err != nil {
					if s.content != "garbage" && live {
						run.Violation("C20 load-error", err.Error(), full)
					}
					return
				}
				if prev, ok := s.byName[e.Arg]; ok {
					if prev.Cfg != cfg && live {
						run.Violation("C20 equal-settings-not-shared", fmt.Sprintf("second load of setting %s returned a different *tls.Config", e.Arg), full)
					}
				} else {
					c := &c20Client{Setting: e.Arg, Cfg: cfg, Loaded: s.content, Seen: s.content, Applied: []string{s.content}}
					if s.content == "empty" {
						c.Seen = "" // a CA file is configured, it holds no certificate yet: nothing is trusted (and nothing skipped)
					}
					s.clients = append(s.clients, c)
					s.byName[e.Arg] = c
				}
			case "rewrite":
				if err := os.WriteFile(s.file, []byte(c20Pem(e.Arg)), 0o600); err != nil {
					panic(err)
				}
				s.content = e.Arg
				s.history[e.Arg] = true
			case "tick", "outage":
				if e.Kind == "outage" {
					_ = os.Remove(s.file)
					for k := 0; k < 3; k++ {
						vsched.Quiesce()
						vtime.AdvanceBy(c20Period)
					}
					vsched.Quiesce()
					if err := os.WriteFile(s.file, []byte(c20Pem(s.content)), 0o600); err != nil {
						panic(err)
					}
				}
				vsched.Quiesce()
				vtime.AdvanceBy(c20Period)
				vsched.Quiesce()
				for _, c := range s.clients {
					if c20Settings[c.Setting].Interval != "unset" && c20Settings[c.Setting].Interval != "0" {
						if s.content != "garbage" && s.content != "empty" {
							if c.Seen != s.content {
								c.Applied = append(c.Applied, s.content)
								if len(c.Applied) > 4 {
									c.Applied = c.Applied[len(c.Applied)-4:]
								}
							}
							c.Seen = s.content
						}
					}
				}
			}
			// the probing connections are part of the history (a client that made connections holds TLS sessions), so
			// they are made on replay as well; only the reporting depends on live
			trust := map[*c20Client]string{}
			for _, c := range s.clients {
				trust[c] = c20TrustSetAfter(c.Cfg, c.Last)
				c.Last = trust[c]
			}
			if !live {
				return
			}
			run.Class(fmt.Sprintf("%s|%s|clients=%d|content=%s", e.Kind, e.Arg, len(s.clients), s.content))
			watched := 0
			for _, c := range s.clients {
				got := trust[c]
				st := c20Settings[c.Setting]
				if st.Interval != "unset" && st.Interval != "0" {
					watched++
					// after a tick the client trusts exactly what its watcher has (validly) seen; between a
					// rewrite and the next tick either the old or the new content is acceptable
					okSet := map[string]bool{c.Seen: true}
					if e.Kind != "tick" && e.Kind != "outage" && s.content != "garbage" && s.content != "empty" {
						okSet[s.content] = true
					}
					if !okSet[got] {
						run.Violation(fmt.Sprintf("C20 rotation-not-followed setting=%s", c.Setting),
							fmt.Sprintf("client of setting %s trusts {%s} but the watched file (now %q) was last seen valid as %q", c.Setting, got, s.content, c.Seen), full)
					}
				} else {
					if !(s.history[got] && got != "garbage") && !(got == "" && c.Loaded == "empty") {
						run.Violation("C20 unwatched-client-trust", fmt.Sprintf("client of unwatched setting %s trusts {%s}", c.Setting, got), full)
					}
				}
			}
			if live := vtime.Live(); live > len(s.tried) {
				run.Violation("C20 superseded-watcher-still-running", fmt.Sprintf("%d live tickers for %d watched settings", live, len(s.tried)), full)
			}
		},
		Enabled: func(sy seqx.Sys, hist []seqx.Event, fresh func() seqx.Sys) []seqx.Event { return evs },
		Canon: func(sy seqx.Sys) string {
			s := sy.(*c20Sys)
			var parts []string
			for _, c := range s.clients {
				parts = append(parts, fmt.Sprintf("%s:trust=%s:seen=%s:applied=%s", c.Setting, c.Last, c.Seen, strings.Join(c.Applied, ">")))
			}
			sort.Strings(parts)
			h := ""
			for _, k := range []string{"one", "two", "garbage", "empty", "one+two"} {
				if s.history[k] {
					h += k[:1] + k[len(k)-1:]
				}
			}
			var tr []string
			for k := range s.tried {
				tr = append(tr, k)
			}
			sort.Strings(tr)
			return fmt.Sprintf("content=%s|hist=%s|tickers=%d%v|tried=%v|%s|%s", s.content, h, vtime.Live(), vtime.Periods(), tr, strings.Join(parts, ","),
				hidden.Dump(s.pool, "log", "mu", "ctx", "configs"))
		},
	}
}

// ---- schedules ----

func c20SchedScenario(name string, bound int) schedx.Scenario {
	return schedx.Scenario{Name: name, Bound: bound, SyncPoints: true, PanicIsViolation: true, DeadlockIsViolation: true,
		Setup: func() *schedx.Instance {
			vtime.SetVirtual(true)
			ctx, cancel := context.WithCancel(context.Background())
			pool := internal.NewTLSConfigPool(ctx)
			file := c20TempFile(world.CA1.PEM)
			var cfgs [3]*tls.Config
			var errs [3]error
			var bodies []func()
			settings := []string{"A", "A"}
			switch name {
			case "load(A)||load(A)":
			case "load(A)||load(B)":
				settings = []string{"A", "B"}
			case "load(A)||load(A)||load(B)":
				settings = []string{"A", "A", "B"}
			case "load(B)||rotate":
				settings = []string{"B"}
				cfgs[2], errs[2] = c20ClientTLS(pool, c20Settings["A"].oidc(file))
				vsched.Quiesce()
			}
			for i, st := range settings {
				i, st := i, st
				bodies = append(bodies, func() { cfgs[i], errs[i] = c20ClientTLS(pool, c20Settings[st].oidc(file)) })
			}
			if name == "load(B)||rotate" {
				bodies = append(bodies, func() {
					vsched.Active().Point("rotate", "file")
					_ = os.WriteFile(file, []byte(world.CA2.PEM), 0o600)
					vtime.FireAll(time.Now())
					vsched.Quiesce()
				})
			}
			return &schedx.Instance{Threads: bodies,
				Close: func() { cancel(); vsched.Quiesce(); os.Remove(file) },
				Finish: func(x *schedx.Exec) (string, []schedx.Violation) {
					var viols []schedx.Violation
					vsched.Quiesce()
					for i := range settings {
						if errs[i] != nil {
							viols = append(viols, schedx.Violation{Signature: "load-error scenario=" + name, Message: errs[i].Error()})
						}
					}
					same := "n/a"
					if len(settings) >= 2 && settings[0] == settings[1] {
						same = fmt.Sprint(cfgs[0] == cfgs[1])
						if cfgs[0] != cfgs[1] {
							viols = append(viols, schedx.Violation{Signature: "equal-settings-not-shared scenario=" + name,
								Message: "two concurrent first loads of identical settings ended with two different *tls.Config objects"})
						}
					}
					// rotate, let the refresh interval elapse (twice), and every client must trust the new content
					_ = os.WriteFile(file, []byte(world.CA2.PEM), 0o600)
					for k := 0; k < 2; k++ {
						vtime.FireAll(time.Now())
						vsched.Quiesce()
					}
					var obs []string
					all := append([]string{}, settings...)
					if name == "load(B)||rotate" {
						all = append(all, "-", "A")
					}
					for i, st := range all {
						if st == "-" || cfgs[i] == nil {
							continue
						}
						got := c20TrustSet(cfgs[i])
						obs = append(obs, fmt.Sprintf("%s:%s", st, got))
						if got != "two" {
							viols = append(viols, schedx.Violation{Signature: fmt.Sprintf("rotation-not-followed setting=%s scenario=%s", st, name),
								Message: fmt.Sprintf("after the CA file was rewritten and the interval elapsed, the client of setting %s (thread %d) trusts {%s}", st, i, got)})
						}
					}
					watched := map[string]bool{}
					for _, st := range all {
						if st != "-" {
							watched[st] = true
						}
					}
					if live := vtime.Live(); live > len(watched) {
						viols = append(viols, schedx.Violation{Signature: "superseded-watcher-still-running scenario=" + name,
							Message: fmt.Sprintf("%d live tickers for %d watched settings", live, len(watched))})
					}
					return fmt.Sprintf("same=%s trust=%v tickers=%d", same, obs, vtime.Live()), viols
				}}
		}}
}

func c20Scenarios(tier string) []schedx.Scenario {
	b := 2
	if tier == "thorough" {
		b = -1
	}
	scs := []schedx.Scenario{c20SchedScenario("load(A)||load(A)", b), c20SchedScenario("load(A)||load(B)", b), c20SchedScenario("load(B)||rotate", b)}
	if tier == "thorough" {
		scs = append(scs, c20SchedScenario("load(A)||load(A)||load(B)", 3))
	}
	return scs
}

func c20Run(run *ev.Run) {
	world.InitPKI()
	vtime.SetVirtual(true)
	defer vtime.SetVirtual(false)
	run.Rule = "configurations: full product CA {none, inline CA1, inline CA2, file} x skip_verify {unset,true,false,\"true\",\"false\",\"True\",\"1\",\"yes\",\"\"} x refresh interval {unset,0,50ms}, judged by real TLS handshakes (tls.Client/tls.Server over net.Pipe, EC certificates) of the client NewHTTPClient builds against servers chaining to CA1, CA2 and an unknown CA; rotation histories: BFS over {load setting A/B/C(/D), rewrite file to CA1/CA2/garbage, tick (fire every live virtual ticker, wait for quiescence)} with handshakes of every client after every event; schedules: all interleavings at every lock operation of concurrent first loads of equal/different settings on one CA file and of a load racing a rotation; class = (config, trust set) and (event, clients, content)"
	run.Assumptions = []string{
		"trust of the system roots is exercised only negatively (no certificate under a system root can be minted offline)",
		"\"yes\" as skip_verify string is treated as ambiguous (either reading accepted)",
		"between a rewrite and the next tick either the old or the new content may be trusted; 'randomised timing' is replaced by all event orders",
		"live tickers <= number of distinct watched settings (not <= 1 per file), so a repair giving each settings object its own watcher is not flagged",
	}
	var evals int64
	for _, ca := range []string{"none", "inline1", "inline2", "file", "file-empty"} {
		for _, skip := range []string{"unset", "true", "false", `"true"`, `"false"`, `"True"`, `"1"`, `"yes"`, `""`} {
			for _, iv := range []string{"unset", "0", "50ms"} {
				c20RunConfig(run, c20Cfg{CA: ca, Skip: skip, Interval: iv})
				evals++
			}
		}
	}
	settings := []string{"B", "C"} // (quick: one watched setting, one unwatched; thorough: all four)
	depth := 5
	if run.Tier == "thorough" {
		settings = []string{"A", "B", "C", "D"}
		depth = 5 // four settings at the quick tier's depth; one more level for the watched setting alone below
	}
	m := c20Model(run, settings)
	m.MaxDepth = depth
	st := seqx.Explore(run, m)
	if !st.Complete {
		run.Cap(fmt.Sprintf("rotation histories stopped at depth %d of %d", st.DepthDone, depth))
	}
	run.Extra["rotation_levels"] = st.LevelSizes
	if run.Tier == "thorough" {
		// one level deeper for the watched setting with the 1 s interval alone
		m2 := c20Model(run, []string{"B"})
		m2.MaxDepth = depth + 1
		st2 := seqx.Explore(run, m2)
		if !st2.Complete {
			run.Cap(fmt.Sprintf("rotation histories (setting B alone) stopped at depth %d of %d", st2.DepthDone, depth+1))
		}
		st.States += st2.States
		st.Transitions += st2.Transitions
		st.Histories += st2.Histories
		run.Extra["rotation_levels_B_alone"] = st2.LevelSizes
	}
	run.States, run.Transitions, run.Traces = st.States+evals, st.Transitions+evals, st.Histories+evals
	for _, sc := range c20Scenarios(run.Tier) {
		cs := schedx.Explore(run, "C20", sc)
		run.Traces += cs.Schedules
		run.Transitions += cs.Points
		run.States += int64(len(cs.Distinct))
		run.Extra["schedules "+sc.Name] = cs.Schedules
		run.Extra["outcomes "+sc.Name] = len(cs.Distinct)
		if !cs.Complete {
			run.Cap("scenario not completed: " + sc.Name)
		}
	}
	run.Evals = run.Transitions
}

func c20ReplayFn(path string) int {
	world.InitPKI()
	vtime.SetVirtual(true)
	var rp schedx.Replay
	if _, err := loadReplay(path, &rp); err == nil && rp.Scenario != "" {
		for _, sc := range c20Scenarios("thorough") {
			if sc.Name == rp.Scenario {
				obs, v, err := schedx.ReplayOnce(sc, rp.Choices)
				if err != nil {
					fmt.Println(err)
					return 2
				}
				return replayVerdict("C20", len(v) > 0, obs)
			}
		}
		return 2
	}
	run := ev.NewRun("C20", "replay", "/nonexistent")
	var sr c20Replay
	if _, err := loadReplay(path, &sr); err == nil && len(sr.History) > 0 {
		s := seqx.Replay(c20Model(run, []string{"A", "B", "C", "D"}), sr.History)
		s.Close()
		return replayVerdict("C20", run.Violations() > 0, "")
	}
	var c c20Cfg
	if _, err := loadReplay(path, &c); err != nil {
		fmt.Println(err)
		return 2
	}
	c20RunConfig(run, c)
	return replayVerdict("C20", run.Violations() > 0, "")
}

func init() { Registry["C20"] = Prop{Run: c20Run, Replay: c20ReplayFn} }

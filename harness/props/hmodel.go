package props

import (
	"fmt"
	"net/url"
	"sort"
	"strconv"
	"strings"
	"time"

	"github.com/istio-ecosystem/authservice/zzverif/hidden"
	"github.com/istio-ecosystem/authservice/zzverif/ev"
	"github.com/istio-ecosystem/authservice/zzverif/seqx"
	"github.com/istio-ecosystem/authservice/zzverif/world"
)

// hmodel: the handler-level world as a seqx model (one OIDC filter; browsers and an attacker).
//
// Events are symbolic so that they are replay-stable whatever the id generator:
//   cookie "#k"  = the k-th session id the service issued;  "!" = an attacker-chosen id never issued; "" = none
//   callback code "#k" = the k-th code the provider minted; state "#k" = state of the k-th authorization request

type hOpts struct {
	Spec       world.Spec
	MaxDev     int
	RedisFaults bool    // additionally enumerate faults of single Redis commands (Redis-backed worlds)
	Faults     bool     // enumerate store/idp/jwks faults (before, after, crash) as deviations
	FaultModes []string // default before, after, crash
	Pairs      bool     // two faults inside one check (costs 2)
	BadIdP     []world.Answer // deviating provider answers (cost 1)
	GoodIdP    []world.Answer // honest answer shapes (cost 0), first = default
	Logout     bool
	Attacker   bool // attacker-chosen cookie + cross-session callbacks
	Advance    bool
	ExtraPaths bool
	Replays    bool // replay of redeemed codes
	NearMiss   bool // near-miss / duplicated state and code parameters (C04)
	MaxSessions int // stop offering new logins beyond this many issued ids (0 = no limit)
	Prefix      []seqx.Event // applied (silently) when a world is created: start from a non-initial state
	Rollover    bool         // the provider may roll its signing key once
	OnlyLive    bool         // present only cookies of sessions that exist in the store (plus none when nothing exists)
	OddCookies  bool         // every cookie-bearing app/logout request also with the session cookie inside odd Cookie headers
}

// oddCookieForms: Cookie headers as browsers send them when other applications on the host set sloppy cookies.
var oddCookieForms = []string{"{C};", "{C}; seen", `prefs={"theme":"dark","n":[1,2]}; {C}`, "; ; {C}", "a=b=c; {C}; d=\"q\"",
	// another cookie whose VALUE contains a comma followed by text shaped like the session cookie (cookies are
	// separated by semicolons only)
	"{C}; theme=dark,{N}=attackerchosenid", "theme=a,{N}=attackerchosenid; {C}"}

type hSys struct {
	W    *world.World
	Dev  int
	Last world.Result
	// harness-side knowledge (maintained on replay too)
	Presented     map[string]bool // every session id any principal has presented so far
	IssuedCookies map[string]bool // every session id the service has put into a Set-Cookie so far
}

func (h *hSys) Close() { h.W.Close() }

// hObs is what a monitor sees for one transition.
type hObs struct {
	Event     seqx.Event
	Req       world.Req // resolved
	SID       string    // resolved cookie value
	Res       world.Result
	Calls     []world.EnvCall
	PreGhost  *world.GhostSession // copy of ghost[SID] before the check
	PreHad    bool
	PreBorn   time.Time // when the presented session's entry came into being (zero: unknown)
	PreRemovedBy string  // who last removed the presented session through the store interface ("" never)
	TokenReqs []*world.TokenReq // token requests made during this check
	AuthzLoc  string            // Location if the answer redirects to the authorization endpoint
	NewCode   *world.Code
	Now       time.Time
	PreDump   string
	RedisCmds   []string
	RedisFailed bool
	Drift     string // store content changed behind the store interface (first observation in this history)
	PrePresented, PreIssued int
	IssuedBefore map[string]bool
}

type hMonitor func(h *hSys, o *hObs, hist []seqx.Event)

func resolveCookie(w *world.World, c string) string {
	switch {
	case c == "":
		return ""
	case c == "!":
		return "attackerchosenid"
	case strings.HasPrefix(c, "#"):
		k, _ := strconv.Atoi(c[1:])
		if k < len(w.Gen.SIDs) {
			return w.Gen.SIDs[k]
		}
		return "unissued" + c[1:]
	}
	return c
}

// resolvePath substitutes {code#k} {state#k} {STATE#k}(case-flipped) {state#k-}(truncated) in a path template.
func resolvePath(w *world.World, p string) string {
	for {
		i := strings.Index(p, "{")
		if i < 0 {
			return p
		}
		j := strings.Index(p[i:], "}")
		if j < 0 {
			return p
		}
		tok := p[i+1 : i+j]
		val := ""
		kind, idx, _ := strings.Cut(tok, "#")
		mod := ""
		if n := strings.IndexAny(idx, "-^ "); n >= 0 {
			mod = idx[n:]
			idx = idx[:n]
		}
		k, _ := strconv.Atoi(idx)
		switch kind {
		case "code":
			if k < len(w.IdP.Codes) {
				val = w.IdP.Codes[k].Value
			}
		case "state":
			if k < len(w.IdP.AuthzReqs) {
				val = w.IdP.AuthzReqs[k].State
			}
		}
		switch mod {
		case "-":
			if len(val) > 1 {
				val = val[:len(val)-1]
			}
		case "^":
			val = flipCaseStr(val)
		case " ":
			val += " "
		}
		p = p[:i] + url.QueryEscape(val) + p[i+j+1:]
	}
}

func flipCaseStr(s string) string {
	b := []byte(s)
	for i, c := range b {
		if c >= 'a' && c <= 'z' {
			b[i] = c - 32
			return string(b)
		}
		if c >= 'A' && c <= 'Z' {
			b[i] = c + 32
			return string(b)
		}
	}
	return s + "X"
}

func copyGhost(g *world.GhostSession) *world.GhostSession {
	if g == nil {
		return nil
	}
	c := &world.GhostSession{}
	if g.Tokens != nil {
		t := *g.Tokens
		c.Tokens = &t
	}
	if g.State != nil {
		s := *g.State
		c.State = &s
	}
	return c
}

func (o hOpts) model(monitors ...hMonitor) seqx.Model {
	modes := o.FaultModes
	if modes == nil {
		modes = []string{"before", "after", "crash"}
	}
	good := o.GoodIdP
	if len(good) == 0 {
		good = []world.Answer{world.Honest}
	}
	apply := func(s seqx.Sys, e seqx.Event, hist []seqx.Event, live bool) {
		h := s.(*hSys)
		w := h.W
		h.Dev += e.Dev
		switch e.Kind {
		case "advance":
			w.Advance(time.Duration(e.Adv) * time.Second)
		case "rollover":
			w.Rollover()
		case "req":
			req := *e.Req
			sid := resolveCookie(w, req.Cookie)
			req.Cookie = sid
			req.CookieOther = resolveCookie(w, req.CookieOther)
			req.Path = resolvePath(w, req.Path)
			o := &hObs{Event: e, Req: req, SID: sid, Now: w.Now()}
			if live {
				if g := w.Store.Ghost[sid]; g != nil {
					o.PreGhost = copyGhost(g)
					o.PreHad = true
					o.PreBorn = w.Store.Born[sid]
				}
				o.PreRemovedBy = w.Store.RemovedBy[sid]
			}
			if h.Presented == nil {
				h.Presented = map[string]bool{}
				h.IssuedCookies = map[string]bool{}
			}
			if sid != "" {
				h.Presented[sid] = true
			}
			o.PrePresented, o.PreIssued = len(h.Presented), len(h.IssuedCookies)
			preIssued := h.IssuedCookies
			if live {
				preIssued = map[string]bool{}
				for k := range h.IssuedCookies {
					preIssued[k] = true
				}
			}
			o.IssuedBefore = preIssued
			nReq := len(w.IdP.TokenReqs)
			plan := world.Plan{}
			if e.Plan != nil {
				plan = *e.Plan
			}
			res := w.Do(req, plan)
			if res.Crashed {
				w.CrashRestart()
			}
			if w.Env.RedisFailed {
				w.ResyncGhost()
			}
			o.RedisCmds = append([]string(nil), w.Env.RedisCmds...)
			o.RedisFailed = w.Env.RedisFailed
			w.CheckDrift("after the check")
			o.Drift = w.Drift
			h.Last = res
			o.Res = res
			if ns := w.SessionFromSetCookie(res); ns != "" && ns != "deleted" {
				h.IssuedCookies[ns] = true
			}
			o.Calls = append([]world.EnvCall(nil), w.Env.Calls...)
			o.TokenReqs = w.IdP.TokenReqs[nReq:]
			// the harness browser follows a redirect to the authorization endpoint at once (the provider mints a code)
			if !res.OK && res.Location != "" && strings.HasPrefix(res.Location, w.Cfg.GetAuthorizationUri()) {
				o.AuthzLoc = res.Location
				if _, code, err := w.IdP.Authorize(res.Location); err == nil {
					o.NewCode = code
				}
			}
			if live {
				for _, m := range monitors {
					m(h, o, hist)
				}
			}
		}
	}
	enabled := func(s seqx.Sys, hist []seqx.Event, fresh func() seqx.Sys) []seqx.Event {
		h := s.(*hSys)
		w := h.W
		var base []seqx.Event
		add := func(path, cookie string) {
			base = append(base, seqx.Event{Kind: "req", Req: &world.Req{Path: path, Cookie: cookie}})
		}
		// cookies worth presenting: none, every id with something in the store, one stale id, attacker's
		var cookies []string
		stale := ""
		for k, sid := range w.Gen.SIDs {
			if w.HasAnything(sid) {
				cookies = append(cookies, fmt.Sprintf("#%d", k))
			} else {
				stale = fmt.Sprintf("#%d", k)
			}
		}
		all := append([]string{""}, cookies...)
		if o.OnlyLive && len(cookies) > 0 {
			all = cookies
			stale = ""
		}
		if stale != "" {
			all = append(all, stale)
		}
		if o.Attacker {
			all = append(all, "!")
		}
		limit := o.MaxSessions > 0 && len(w.Gen.SIDs) >= o.MaxSessions
		for _, c := range all {
			if limit && (c == "" || c == "!" || c == stale) {
				// would only mint yet another pending session
				continue
			}
			add("/", c)
		}
		if o.ExtraPaths {
			add("/x?y=1", "")
			if len(cookies) > 0 {
				add("/x?y=1&next=%2Fcallback", cookies[len(cookies)-1])
			}
		}
		if o.Logout {
			for _, c := range all {
				if c == "!" || (c == stale && c != "") {
					continue
				}
				add(world.LogoutPath, c)
			}
		}
		// callbacks
		owner := func(state string) string {
			for k, sid := range w.Gen.SIDs {
				if g := w.Store.Ghost[sid]; g != nil && g.State != nil && g.State.State == state {
					return fmt.Sprintf("#%d", k)
				}
			}
			return ""
		}
		orphanDone := false
		for k, c := range w.IdP.Codes {
			if c.Redeemed && !o.Replays {
				continue
			}
			own := owner(c.Req.State)
			if own == "" {
				if orphanDone {
					continue
				}
				orphanDone = true
			}
			cb := fmt.Sprintf("/callback?code={code#%d}&state={state#%d}", k, k)
			if own != "" {
				add(cb, own)
			}
			if o.Attacker {
				for _, c2 := range all {
					if c2 != own {
						add(cb, c2)
						if o.OddCookies && own != "" && c2 != "" && c2 != "!" {
							// the victim's cookie (c2) first, the owner's session id smuggled behind a comma in another cookie's value
							base = append(base, seqx.Event{Kind: "req", Req: &world.Req{Path: cb, Cookie: c2, CookieOther: own, CookieForm: "{C}; theme=dark,{N}={O}"}})
						}
					}
				}
				if own != "" {
					add(fmt.Sprintf("/callback?code={code#%d}&state=garbage", k), own)
					add(fmt.Sprintf("/callback?code=garbage&state={state#%d}", k), own)
					add(fmt.Sprintf("/callback?state={state#%d}", k), own)
				}
			}
			if o.NearMiss && own != "" {
				add(fmt.Sprintf("/callback?state={state#%d}&code={code#%d}", k, k), own) // re-ordered
				add(fmt.Sprintf("/callback?code={code#%d}&state={state#%d^}", k, k), own)
				add(fmt.Sprintf("/callback?code={code#%d}&state={state#%d-}", k, k), own)
				add(fmt.Sprintf("/callback?code={code#%d}&state={state#%d }", k, k), own)
				add(fmt.Sprintf("/callback?code={code#%d}&state=garbage&state={state#%d}", k, k), own)
				add(fmt.Sprintf("/callback?code={code#%d}&state={state#%d}&state=garbage", k, k), own)
				add(fmt.Sprintf("/callback?code=garbage&code={code#%d}&state={state#%d}", k, k), own)
				add(fmt.Sprintf("/callback?code={code#%d}&STATE={state#%d}", k, k), own)
				add(fmt.Sprintf("/callback?code={code#%d}", k), own)
			}
		}
		if o.Attacker && len(cookies) > 0 {
			add("/callback", cookies[0])
			add("/callback?code=x&state=y", cookies[0])
		}
		var out []seqx.Event
		// clock
		if o.Advance {
			var exps []time.Time
			for _, g := range w.Store.Ghost {
				if g.Tokens == nil {
					continue
				}
				if is := w.IdP.Issued[g.Tokens.IDToken]; is != nil {
					exps = append(exps, is.Exp)
				}
				if !g.Tokens.AccessTokenExpiresAt.IsZero() {
					exps = append(exps, g.Tokens.AccessTokenExpiresAt.Add(5).Truncate(time.Second))
				}
				// ... and when the provider says the access token expires, whatever the service noted down
				if ai := w.IdP.Issued[g.Tokens.AccessToken]; ai != nil && ai.Kind == "access" {
					exps = append(exps, ai.Exp)
				}
			}
			sort.Slice(exps, func(i, j int) bool { return exps[i].Before(exps[j]) })
			for _, x := range exps {
				if x.After(w.Now()) || x.Equal(w.Now()) {
					d := int(x.Sub(w.Now()) / time.Second)
					if d > 0 {
						out = append(out, seqx.Event{Kind: "advance", Adv: d}) // exactly at the limit
					}
					out = append(out, seqx.Event{Kind: "advance", Adv: d + 1}) // just after
					break
				}
			}
		}
		if o.Rollover && !w.Rolled {
			out = append(out, seqx.Event{Kind: "rollover"})
		}
		if o.OddCookies {
			n := len(base)
			for i := 0; i < n; i++ {
				r := base[i].Req
				if r.Cookie == "" || r.Cookie == "!" || strings.HasPrefix(r.Path, "/callback") {
					continue
				}
				for _, f := range oddCookieForms {
					r2 := *r
					r2.CookieForm = f
					base = append(base, seqx.Event{Kind: "req", Req: &r2})
				}
			}
		}
		// two replicas: every request can be served by either
		if o.Spec.Replicas == 2 {
			n := len(base)
			for i := 0; i < n; i++ {
				r2 := *base[i].Req
				r2.Replica = 1
				base = append(base, seqx.Event{Kind: "req", Req: &r2})
			}
		}
		// expand requests with provider answers and faults, sized by a dry run
		for _, e := range base {
			out = append(out, e)
			needDry := o.Faults && h.Dev < o.MaxDev || len(good) > 1 || len(o.BadIdP) > 0
			if !needDry {
				continue
			}
			d := fresh().(*hSys)
			apply(d, e, hist, false)
			calls := append([]world.EnvCall(nil), d.W.Env.Calls...)
			nRedis := len(d.W.Env.RedisCmds)
			d.Close()
			idpCalled := false
			for _, c := range calls {
				if c.Kind == "idp" {
					idpCalled = true
				}
			}
			if idpCalled {
				for _, a := range good[1:] {
					a := a
					ee := e
					ee.Plan = &world.Plan{Answer: &a}
					out = append(out, ee)
				}
				if h.Dev < o.MaxDev {
					for _, a := range o.BadIdP {
						a := a
						ee := e
						ee.Plan = &world.Plan{Answer: &a}
						ee.Dev = 1
						out = append(out, ee)
					}
				}
			}
			if o.Faults && o.RedisFaults && h.Dev < o.MaxDev {
				// Redis-backed worlds: every single command of the check fails before / after the server executed it
				for k := 0; k < nRedis; k++ {
					for _, m := range []string{"before", "after"} {
						ee := e
						ee.Plan = &world.Plan{RedisFaults: map[int]string{k: m}}
						ee.Dev = 1
						out = append(out, ee)
					}
				}
			}
			if o.Faults && h.Dev < o.MaxDev {
				for k := range calls {
					for _, m := range modes {
						ee := e
						ee.Plan = &world.Plan{Faults: map[int]string{k: m}}
						ee.Dev = 1
						out = append(out, ee)
					}
				}
				if o.Pairs && h.Dev+2 <= o.MaxDev {
					// second fault position is relative to the run with the first fault in place
					for k := range calls {
						for _, m := range []string{"before", "after"} {
							d2 := fresh().(*hSys)
							e1 := e
							e1.Plan = &world.Plan{Faults: map[int]string{k: m}}
							apply(d2, e1, hist, false)
							n2 := len(d2.W.Env.Calls)
							d2.Close()
							for k2 := k + 1; k2 < n2; k2++ {
								for _, m2 := range modes {
									ee := e
									ee.Plan = &world.Plan{Faults: map[int]string{k: m, k2: m2}}
									ee.Dev = 2
									out = append(out, ee)
								}
							}
						}
					}
				}
			}
		}
		return out
	}
	canon := func(s seqx.Sys) string {
		h := s.(*hSys)
		w := h.W
		var sb strings.Builder
		sb.WriteString(w.StoreDump(w.Spec.Abs > 0 || w.Spec.Idle > 0))
		sb.WriteString("|idp:")
		sb.WriteString(w.IdP.Summary())
		// expiry of every token the store holds, relative to now
		sb.WriteString("|exp:")
		var sids []string
		for sid := range w.Store.Ghost {
			sids = append(sids, sid)
		}
		w.SortByIssue(sids)
		for _, sid := range sids {
			g := w.Store.Ghost[sid]
			if g.Tokens != nil {
				if is := w.IdP.Issued[g.Tokens.IDToken]; is != nil {
					fmt.Fprintf(&sb, "%s:%v;", sid, is.Exp.Sub(w.Now()))
				}
			}
		}
		// the reference's own book-keeping is state too: two histories may leave the store alike and the reference
		// different - exactly when the service has lost track of something
		for _, sid := range w.Gen.SIDs {
			if b, ok := w.Store.Born[sid]; ok && (w.Spec.Abs > 0 || w.Spec.Idle > 0) {
				fmt.Fprintf(&sb, "|born:%s:%v", sid, w.Now().Sub(b))
			}
			if by := w.Store.RemovedBy[sid]; by != "" {
				fmt.Fprintf(&sb, "|removed:%s:%s", sid, by)
			}
			if g := w.Store.Ghost[sid]; g != nil {
				fmt.Fprintf(&sb, "|ghost:%s:%v:%v", sid, g.Tokens != nil, g.State != nil)
			}
		}
		stale := false
		for _, sid := range w.Gen.SIDs {
			if !w.HasAnything(sid) {
				stale = true
			}
		}
		fmt.Fprintf(&sb, "|stale=%v|dev=%d|crash=%v|rolled=%v|drift=%v", stale, h.Dev, w.Crashes > 0, w.Rolled, w.Drift != "")
		if hs := hidden.Dump(w.Raw, "log", "clock", "mu", "sessions", "client", "absoluteSessionTimeout", "idleSessionTimeout"); hs != "{}" {
			sb.WriteString("|hidden:" + hs)
		}
		if w.Raw2 != nil {
			if hs := hidden.Dump(w.Raw2, "log", "clock", "mu", "sessions", "client", "absoluteSessionTimeout", "idleSessionTimeout"); hs != "{}" {
				sb.WriteString("|hidden2:" + hs)
			}
		}
		if o.MaxSessions > 0 {
			fmt.Fprintf(&sb, "|nsid=%d", len(w.Gen.SIDs))
		}
		if o.Replays {
			for _, c := range w.IdP.Codes {
				if c.Redeemed {
					fmt.Fprintf(&sb, "|redeemed{%s %s}", c.Value, c.Req.State)
				}
			}
		}
		return w.Canon(sb.String())
	}
	return seqx.Model{
		New: func() seqx.Sys {
			h := &hSys{W: world.New(o.Spec)}
			for i, e := range o.Prefix {
				apply(h, e, o.Prefix[:i], false)
			}
			return h
		},
		Apply:   apply,
		Enabled: enabled,
		Canon:   canon,
		MaxDev:  o.MaxDev,
	}
}


// debugLogTail runs one more search per given spec with log_level all:debug (set up as cmd/main.go does) and adds it
// to the run's counters. Called through defer, so that it comes last: the logging set-up is process-wide and cannot be
// undone. What runs only at debug level (the logging round tripper around provider requests, the formatting of logged
// values, whatever a log statement calls) must not change anything a property speaks about.
func debugLogTail(run *ev.Run, depth int, build func(world.Spec) seqx.Model, specs ...world.Spec) {
	var levels [][]int
	t0 := time.Now()
	defer func() { run.Extra["wall_s_log=debug"] = int(time.Since(t0).Seconds()) }()
	for _, spec := range specs {
		if run.Expired() {
			run.Cap("debug-logging search not started")
			break
		}
		spec.DebugLog = true
		m := build(spec)
		m.MaxDepth = depth
		st := seqx.Explore(run, m)
		run.States += st.States
		run.Transitions += st.Transitions
		run.Traces += st.Histories
		run.Evals += st.Transitions
		if !st.Complete {
			run.Cap(fmt.Sprintf("debug-logging search store=%s stopped at depth %d of %d", spec.Store, st.DepthDone, depth))
		}
		levels = append(levels, st.LevelSizes)
	}
	run.Rule += fmt.Sprintf("; last, %d configuration(s) once more with log_level all:debug (depth %d, quick alphabet)", len(specs), depth)
	run.Extra["levels_log=debug"] = levels
	run.Extra["depth_log=debug"] = depth
}

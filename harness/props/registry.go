// Package props holds one file per property: alphabets, monitors and the exploration entry point.
package props

import (
	"encoding/json"
	"fmt"
	"os"

	"github.com/istio-ecosystem/authservice/zzverif/ev"
)

type Prop struct {
	Run    func(r *ev.Run)
	Replay func(path string) int
	// SchedChild runs one schedule of the named fresh-process scenario in this (new) process.
	SchedChild func(scenario, prefixJSON string)
}

var Registry = map[string]Prop{}

// loadReplay reads the "replay" member of a replay artefact into v.
func loadReplay(path string, v any) (sig string, err error) {
	b, err := os.ReadFile(path)
	if err != nil {
		return "", err
	}
	var env struct {
		Signature string          `json:"signature"`
		Replay    json.RawMessage `json:"replay"`
	}
	if err := json.Unmarshal(b, &env); err != nil {
		return "", err
	}
	return env.Signature, json.Unmarshal(env.Replay, v)
}

func replayVerdict(id string, violated bool, msg string) int {
	if violated {
		fmt.Printf("REPLAY property=%s verdict=VIOLATED %s\n", id, msg)
		return 1
	}
	fmt.Printf("REPLAY property=%s verdict=HOLDS %s\n", id, msg)
	return 0
}

// oddStrings is the shared alphabet of unusual string values (one per character class or shape that parsers
// commonly mishandle); used for cookies, paths, hosts, query values and configuration string fields.
var oddStrings = []string{
	"", " ", "\"", "\"\"", "'", "%", "%zz", "%2F", "%00", "%25", ";", "&", "=", "==", "#", "?", "+", "/", "//", "\\", ":", "::", "@",
	"\x00", "\x7f", "\r\n", "\t", "\xff\xfe", "\u00fc", "a b", "a=b", "a;b", "a&b", "a\"b", "../..", "%c0%af", "{}", "[]", "null", "0", "-1",
}


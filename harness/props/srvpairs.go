package props

import (
	"fmt"
	"strings"

	"github.com/istio-ecosystem/authservice/zzverif/ev"
	"github.com/istio-ecosystem/authservice/zzverif/world"
)

// Server-level pairs of filters whose configurations COINCIDE in all but one detail (port, discovery selector,
// Redis database, spelling of the Redis URI, token forwarding): what the service keeps per provider, per store or per
// registration must not be shared between them. One filter is used first, then the other logs in and is probed.

type srvPair struct {
	Name string
	A, B world.FilterSpec
}

func srvCoincidingPairs() []srvPair {
	d := func(name, realm, prefix string, key *world.Key) world.FilterSpec {
		return world.FilterSpec{Name: name, Realm: realm, ClientID: "client-x", Secret: "secret-x", CookiePrefix: prefix, Discovery: true, Forward: true, Logout: true, Key: key}
	}
	return []srvPair{
		{"two providers on one host, different ports", d("a", "idp.test:8001", "pa", world.KeyEC), d("b", "idp.test:8002", "pb", world.KeyEC2)},
		{"one provider host, one discovery document per selector", d("a", "idp.test?p=b2c_1_signin", "pa", world.KeyEC), d("b", "idp.test?p=b2c_1_admin", "pb", world.KeyEC2)},
		{"same host, different discovery paths are not needed: different hosts (control)", d("a", "idp-a.test", "pa", world.KeyEC), d("b", "idp-b.test", "pb", world.KeyEC2)},
	}
}

type srvPairObs struct {
	Pair        string
	First       string // which filter served a request first
	LoginLoc    string // Location of the second filter's first (login) redirect
	WantAuthz   string // the second filter's own authorization endpoint
	LoginErr    string
	TokenReqsAt map[string]int // realm -> token requests received
	ProbeOK     bool
	IDIssuer    string // realm that issued the ID token the probe forwarded ("" none / unknown)
	Second      world.FilterSpec
}

// srvRunPairs: for each pair and each order, the FIRST filter serves one request, then the SECOND filter logs in
// completely and is probed with its session.
func srvRunPairs(run *ev.Run, each func(o srvPairObs, replay any)) int64 {
	world.InitKeys()
	var n int64
	for _, p := range srvCoincidingPairs() {
		for _, order := range [][2]world.FilterSpec{{p.A, p.B}, {p.B, p.A}} {
			first, second := order[0], order[1]
			sw, err := world.NewSWorld([]world.FilterSpec{p.A, p.B}, nil)
			if err != nil {
				run.HarnessError("server-level pair " + p.Name + ": " + err.Error())
				continue
			}
			o := srvPairObs{Pair: p.Name, First: first.Name, Second: second, TokenReqsAt: map[string]int{}}
			sw.Do(world.SReq{Tenant: first.Name, Path: "/" + first.Name + "/app"})
			r1 := sw.Do(world.SReq{Tenant: second.Name, Path: "/" + second.Name + "/app"})
			o.LoginLoc = r1.Location
			realmHost, selector, _ := strings.Cut(second.Realm, "?")
			_ = realmHost
			o.WantAuthz = "http://" + sw.RealmHost(second) + "/auth"
			if selector != "" {
				o.WantAuthz += "?" + selector
			}
			sid, name, lerr := sw.Login(second)
			if lerr != nil {
				o.LoginErr = lerr.Error()
			} else {
				pr := sw.Do(world.SReq{Tenant: second.Name, Path: "/" + second.Name + "/app", Cookies: map[string]string{name: sid}})
				o.ProbeOK = pr.OK
				for _, h := range pr.Headers {
					if strings.EqualFold(h[0], "authorization") {
						tok := strings.TrimPrefix(h[1], "Bearer ")
						for realm, idp := range sw.Realms {
							if idp.HasIssued(tok) {
								o.IDIssuer = realm
							}
						}
					}
				}
			}
			for realm := range sw.Realms {
				o.TokenReqsAt[realm] = sw.TokenRequests(realm)
			}
			n++
			run.Class(fmt.Sprintf("server-pair|%s|first=%s|login-ok=%v|probe-ok=%v", p.Name, first.Name, lerr == nil, o.ProbeOK))
			each(o, map[string]any{"level": "server-pair", "pair": p.Name, "first": first.Name, "filters": []world.FilterSpec{p.A, p.B}})
			sw.Close()
		}
	}
	return n
}

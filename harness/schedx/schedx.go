// Package schedx explores all schedules of a small multi-threaded harness over the real code, up to a
// pre-emption bound (iterative context bounding, Musuvathi & Qadeer), under the vsched cooperative scheduler.
package schedx

import (
	"encoding/json"
	"fmt"
	"os"
	"os/exec"
	"strings"

	"github.com/istio-ecosystem/authservice/zzverif/ev"
	"github.com/istio-ecosystem/authservice/zzverif/vsched"
)

// Instance is one fresh copy of the harness (fresh world + thread bodies).
type Instance struct {
	Threads []func()
	// Finish runs after all threads ended (never after a deadlock); it returns the observation log of the
	// execution (must be deterministic for a given schedule) and the violations found.
	Finish func(x *Exec) (obs string, viols []Violation)
	Close  func()
}

type Violation struct {
	Signature string
	Message   string
}

// Exec is one completed execution.
type Exec struct {
	Sched   *vsched.Sched
	Results []vsched.ThreadResult
	Choices []int
}

type Scenario struct {
	Name       string
	Setup      func() *Instance
	SyncPoints bool
	Bound      int // pre-emption bound; <0 = unbounded
	// OnDeadlock / OnPanic: signature producers; nil = report as harness error
	DeadlockIsViolation bool
	PanicIsViolation    bool
	// OnceOnly: violations are facts reported once per process by an external oracle (the race runtime de-duplicates
	// its reports), so they cannot be confirmed by replaying the schedule.
	OnceOnly bool
	// FreshProcess: every execution runs in a new process (scenarios whose subject is process-wide state at start-up).
	// Prop is the property whose vcheck sub-command re-creates the scenario in the child.
	FreshProcess bool
	Prop         string
	// FuncPoints: function entries of the repository's packages are scheduling points (needs an ovgen -funcpoints build).
	FuncPoints bool
}

type Stats struct {
	Schedules   int64
	Points      int64
	Distinct    map[string]int64
	Deadlocks   int64
	MaxPoints   int
	Complete    bool
	BoundDone   int
}

// Replay is the replay artefact of a schedule.
type Replay struct {
	Scenario string `json:"scenario"`
	Choices  []int  `json:"choices"`
	Trace    []string `json:"trace,omitempty"`
}

// ChildResult is what a fresh-process execution reports back.
type ChildResult struct {
	Trace    []vsched.Point `json:"trace"`
	Deadlock bool           `json:"deadlock"`
	Obs      string         `json:"obs"`
	Viols    []Violation    `json:"viols"`
	Err      string         `json:"err,omitempty"`
}

// RunChild executes one schedule of sc in this process and prints the result (the child side of FreshProcess).
func RunChild(sc Scenario, prefix []int) {
	sc.FreshProcess = false
	x, obs, viols, err := runOnce(sc, prefix)
	res := ChildResult{Obs: obs, Viols: viols}
	if x != nil && x.Sched != nil {
		res.Trace, res.Deadlock = x.Sched.Trace, x.Sched.Deadlock
	}
	if err != nil {
		res.Err = err.Error()
	}
	b, _ := json.Marshal(res)
	fmt.Println("SCHED-CHILD-RESULT " + string(b))
}

func runRemote(sc Scenario, prefix []int) (*Exec, string, []Violation, error) {
	exe, err := os.Executable()
	if err != nil {
		return nil, "", nil, err
	}
	pb, _ := json.Marshal(prefix)
	cmd := exec.Command(exe, sc.Prop, "--verif", os.TempDir())
	cmd.Env = append(os.Environ(), "VERIF_SCHED_CHILD="+sc.Name, "VERIF_SCHED_PREFIX="+string(pb))
	out, runErr := cmd.CombinedOutput()
	var res ChildResult
	found := false
	for _, ln := range strings.Split(string(out), "\n") {
		if strings.HasPrefix(ln, "SCHED-CHILD-RESULT ") {
			if json.Unmarshal([]byte(strings.TrimPrefix(ln, "SCHED-CHILD-RESULT ")), &res) == nil {
				found = true
			}
		}
	}
	if !found {
		return &Exec{Sched: &vsched.Sched{}}, "", nil, fmt.Errorf("fresh-process execution gave no result (%v): %s", runErr, lastN(string(out), 400))
	}
	x := &Exec{Sched: &vsched.Sched{Trace: res.Trace, Deadlock: res.Deadlock}}
	for _, p := range res.Trace {
		x.Choices = append(x.Choices, p.Chosen)
	}
	if res.Err != "" {
		return x, res.Obs, res.Viols, fmt.Errorf("%s", res.Err)
	}
	return x, res.Obs, res.Viols, nil
}

func lastN(s string, n int) string {
	if len(s) > n {
		return s[len(s)-n:]
	}
	return s
}

func runOnce(sc Scenario, prefix []int) (*Exec, string, []Violation, error) {
	if sc.FreshProcess && os.Getenv("VERIF_SCHED_CHILD") == "" {
		return runRemote(sc, prefix)
	}
	inst := sc.Setup()
	if inst.Close != nil {
		defer inst.Close()
	}
	var choices []int
	diverged := ""
	chooser := func(step int, p *vsched.Point) int {
		c := 0
		if step < len(prefix) {
			c = prefix[step]
			if c >= len(p.Enabled) {
				diverged = fmt.Sprintf("step %d: choice %d but only %d enabled", step, c, len(p.Enabled))
				c = 0
			}
		}
		return c
	}
	vsched.DefaultFuncPoints = sc.FuncPoints
	s, res := vsched.Run(inst.Threads, chooser, sc.SyncPoints)
	for _, p := range s.Trace {
		choices = append(choices, p.Chosen)
	}
	x := &Exec{Sched: s, Results: res, Choices: choices}
	if diverged != "" {
		return x, "", nil, fmt.Errorf("replay divergence: %s", diverged)
	}
	if s.Aborted != "" {
		return x, "", nil, fmt.Errorf("execution aborted: %s", s.Aborted)
	}
	var viols []Violation
	if s.Deadlock {
		if sc.DeadlockIsViolation {
			return x, "deadlock", []Violation{{Signature: "deadlock " + deadlockShape(s), Message: "no enabled thread while some are unfinished: " + TraceString(s)}}, nil
		}
		return x, "", nil, fmt.Errorf("deadlock in scenario %s: %s", sc.Name, TraceString(s))
	}
	for i, r := range res {
		if r.Panicked {
			if sc.PanicIsViolation {
				viols = append(viols, Violation{Signature: "panic " + firstRepoFrame(r.Stack), Message: fmt.Sprintf("thread %d panicked: %v", i, r.Panic)})
			} else {
				return x, "", nil, fmt.Errorf("thread %d panicked: %v\n%s", i, r.Panic, r.Stack)
			}
		}
	}
	obs, vs := inst.Finish(x)
	return x, obs, append(viols, vs...), nil
}

func deadlockShape(s *vsched.Sched) string {
	var kinds []string
	for _, p := range s.Trace {
		if p.Kind == "block" {
			kinds = append(kinds, p.Obj)
		}
	}
	return strings.Join(kinds, ",")
}

func firstRepoFrame(stack string) string {
	for _, ln := range strings.Split(stack, "\n") {
		if strings.HasPrefix(ln, "github.com/istio-ecosystem/authservice/internal") && !strings.Contains(ln, "zzverif") {
			if i := strings.LastIndex(ln, "("); i > 0 {
				ln = ln[:i]
			}
			return strings.TrimPrefix(ln, "github.com/istio-ecosystem/authservice/")
		}
	}
	return "?"
}

// TraceString renders a schedule for humans.
func TraceString(s *vsched.Sched) string {
	var sb strings.Builder
	for i, p := range s.Trace {
		if i > 0 {
			sb.WriteString(" ")
		}
		fmt.Fprintf(&sb, "[t%d %s", p.Thread, p.Kind)
		if len(p.Enabled) > 1 {
			fmt.Fprintf(&sb, " ->t%d", p.Enabled[p.Chosen])
		}
		sb.WriteString("]")
	}
	return sb.String()
}

// Explore enumerates every schedule of sc with at most sc.Bound pre-emptions.
// Explore iterates the pre-emption bound (1, 2, ... up to the scenario's own; unbounded scenarios start with 1 and 2):
// a counterexample with the fewest pre-emptions is found first and early, and when a deadline cuts the search the
// lower bounds have been covered completely. The statistics returned are those of the last (widest) search, which
// contains the earlier ones.
func Explore(run *ev.Run, prop string, sc Scenario) Stats {
	if (sc.Bound >= 2 || sc.Bound < 0) && !sc.OnceOnly {
		top := sc.Bound
		if top < 0 {
			top = 3
		}
		v0 := run.Violations()
		for b := 1; b < top; b++ {
			lo := sc
			lo.Bound = b
			st := exploreBound(run, prop, lo)
			if !st.Complete || run.Violations() > v0 {
				st.Complete = st.Complete && false
				st.BoundDone = b - 1
				if run.Violations() > v0 {
					st.BoundDone = b
				}
				return st
			}
		}
	}
	st := exploreBound(run, prop, sc)
	st.BoundDone = sc.Bound
	return st
}

func exploreBound(run *ev.Run, prop string, sc Scenario) Stats {
	st := Stats{Distinct: map[string]int64{}, Complete: true}
	// determinism self-test: default schedule twice
	x1, o1, v1, e1 := runOnce(sc, nil)
	_, o2, v2, e2 := runOnce(sc, nil)
	if sc.OnceOnly && e1 == nil && e2 == nil {
		for _, v := range append(v1, v2...) {
			run.Violation(prop+" "+v.Signature, v.Message+" | schedule: "+TraceString(x1.Sched), Replay{Scenario: sc.Name, Choices: x1.Choices})
		}
	}
	if e1 != nil || e2 != nil || o1 != o2 {
		run.HarnessError(fmt.Sprintf("%s/%s: determinism self-test failed (%v / %v) obs equal=%v", prop, sc.Name, e1, e2, o1 == o2))
		st.Complete = false
		return st
	}
	var rec func(prefix []int)
	rec = func(prefix []int) {
		if !st.Complete {
			return
		}
		if run.Expired() || run.Violations() > 30 {
			st.Complete = false
			return
		}
		x, obs, viols, err := runOnce(sc, prefix)
		st.Schedules++
		st.Points += int64(len(x.Sched.Trace))
		if len(x.Sched.Trace) > st.MaxPoints {
			st.MaxPoints = len(x.Sched.Trace)
		}
		if err != nil {
			run.HarnessError(fmt.Sprintf("%s/%s: %v (choices %v)", prop, sc.Name, err, prefix))
			st.Complete = false
			return
		}
		if x.Sched.Deadlock {
			st.Deadlocks++
		}
		st.Distinct[obs]++
		if len(viols) > 0 && sc.OnceOnly {
			for _, v := range viols {
				run.Violation(prop+" "+v.Signature, v.Message+" | schedule: "+TraceString(x.Sched),
					Replay{Scenario: sc.Name, Choices: x.Choices, Trace: strings.Fields(TraceString(x.Sched))})
			}
		} else if len(viols) > 0 {
			// believe a failure only if the same schedule fails identically twice more
			_, obsA, vA, eA := runOnce(sc, x.Choices)
			_, obsB, vB, eB := runOnce(sc, x.Choices)
			if eA != nil || eB != nil || obsA != obs || obsB != obs || len(vA) != len(viols) || len(vB) != len(viols) {
				ch := x.Choices
			if len(ch) > 40 {
				ch = ch[:40]
			}
			run.HarnessError(fmt.Sprintf("%s/%s: violation not reproducible on replay (first choices %v): %v %v", prop, sc.Name, ch, eA, eB))
				st.Complete = false
				return
			}
			for _, v := range viols {
				run.Violation(prop+" "+v.Signature, v.Message+" | schedule: "+TraceString(x.Sched),
					Replay{Scenario: sc.Name, Choices: x.Choices, Trace: strings.Fields(TraceString(x.Sched))})
			}
		}
		if st.Schedules == 1 || st.Schedules == 7 {
			run.Sample(map[string]any{"scenario": sc.Name, "schedule": TraceString(x.Sched), "observation": obs})
		}
		// branch
		pre := 0
		for i, p := range x.Sched.Trace {
			if i >= len(prefix) && len(p.Enabled) > 1 {
				cost := pre
				if !p.Free {
					cost++
				}
				if sc.Bound < 0 || cost <= sc.Bound {
					for alt := 1; alt < len(p.Enabled); alt++ {
						np := make([]int, i+1)
						copy(np, x.Choices[:i])
						np[i] = alt
						rec(np)
					}
				}
			}
			if p.Chosen != 0 && !p.Free {
				pre++
			}
		}
	}
	rec(nil)
	st.BoundDone = sc.Bound
	return st
}

// RunOnce executes one schedule (prefix, then default choices) and returns the execution, its observation and violations.
func RunOnce(sc Scenario, prefix []int) (*Exec, string, []Violation, error) { return runOnce(sc, prefix) }

// ReplayOnce re-executes one recorded schedule; returns observation and violations.
func ReplayOnce(sc Scenario, choices []int) (string, []Violation, error) {
	_, obs, v, err := runOnce(sc, choices)
	return obs, v, err
}

// Package seqx is the explicit-state explorer over event histories of the real code.
//
// A state is the canonical form of a live world; live objects cannot be cloned, so a successor is obtained
// by replaying the (shortest known) history on a fresh world and applying one more event. The search is
// level-synchronous breadth-first, de-duplicated on the canonical form, parallel over the frontier, and
// deterministic (successors are merged in frontier order).
package seqx

import (
	"crypto/sha256"
	"sort"
	"fmt"
	"os"
	"encoding/json"
	"sync"
	"sync/atomic"

	"github.com/istio-ecosystem/authservice/zzverif/ev"
	"github.com/istio-ecosystem/authservice/zzverif/par"
	"github.com/istio-ecosystem/authservice/zzverif/world"
)

// Event is one step of a history.
type Event struct {
	Kind string      `json:"kind"`
	Who  string      `json:"who,omitempty"`
	Req  *world.Req  `json:"req,omitempty"`
	Plan *world.Plan `json:"plan,omitempty"`
	Adv  int         `json:"adv,omitempty"`
	Arg  string      `json:"arg,omitempty"`
	Arg2 string      `json:"arg2,omitempty"`
	N    int         `json:"n,omitempty"`
	Dev  int         `json:"dev,omitempty"` // deviations this event consumes
}

func (e Event) String() string {
	b, _ := json.Marshal(e)
	return string(b)
}

// Sys is a live system instance.
type Sys interface {
	Close()
}

// Model binds the explorer to the real code.
type Model struct {
	New func() Sys
	// Apply applies e to s. live=false while re-establishing a state by replay (monitors stay silent,
	// they already ran when the transition was first taken).
	Apply func(s Sys, e Event, hist []Event, live bool)
	// Enabled lists the events enabled in s; fresh() returns another instance in the same state (for dry runs);
	// the model must Close instances obtained from fresh.
	Enabled func(s Sys, hist []Event, fresh func() Sys) []Event
	Canon   func(s Sys) string
	// Symbolic events: when set, an event of the alphabet is resolved against the current state (e.g. "the
	// cookie of session #2") so that it stays meaningful on replay. Not needed when Apply resolves itself.
	MaxDepth int
	MaxDev   int
	// Serial: the system uses process-global facilities (virtual tickers); explore on one worker.
	Serial bool
	// CheckMerges: for every canonical state, this many OTHER histories that reach it are expanded too and the set
	// of their successors' canonical forms is compared with the representative's. Equal: the merge was sound (the
	// monitors have meanwhile also judged every event from a differently reached instance of the state). Different:
	// the canonical form hides something that shapes the future (private state the dump cannot see); the other
	// history is then kept as a state of its own and explored.
	CheckMerges int
}

type Stats struct {
	States       int64
	Transitions  int64
	Replayed     int64
	Histories    int64
	DepthDone    int
	LevelSizes   []int
	Complete     bool
	MergesChecked int64 // other histories into a known state whose successor sets were compared
	MergesRefined int64 // ... and differed: kept as separate states
	RefinedSample []Event
}

type item struct {
	hist  []Event
	canon string
	alt   bool // another history into the known state canon
}

type succ struct {
	canon string
	hist  []Event
}

// DefaultCheckMerges applies to models that leave CheckMerges 0 (a model opts out with -1).
var DefaultCheckMerges = 1

// Explore runs the search. It stops early (Complete=false) when run.Expired() or a violation cap is hit.
func Explore(run *ev.Run, m Model) Stats {
	var st Stats
	if m.CheckMerges == 0 {
		m.CheckMerges = DefaultCheckMerges
	}
	defer func() {
		if m.CheckMerges > 0 {
			run.AddExtra("merges_checked", st.MergesChecked)
			run.AddExtra("merges_refined", st.MergesRefined)
			if st.MergesRefined > 0 {
				run.SetExtraOnce("merges_refined_sample", st.RefinedSample)
			}
		}
	}()
	seen := map[string]bool{}
	root := m.New()
	rootCanon := m.Canon(root)
	seen[rootCanon] = true
	root.Close()
	st.States = 1
	frontier := []item{{canon: rootCanon}}
	vecs := map[string]string{}
	altCount := map[string]int{}
	replay := func(hist []Event) Sys {
		s := m.New()
		for i, e := range hist {
			m.Apply(s, e, hist[:i], false)
		}
		atomic.AddInt64(&st.Replayed, int64(len(hist)))
		atomic.AddInt64(&st.Histories, 1)
		return s
	}
	st.Complete = true
	for depth := 0; depth < m.MaxDepth && len(frontier) > 0; depth++ {
		results := make([][]succ, len(frontier))
		var stopped int32
		pfor := par.For
		if m.Serial {
			pfor = par.Serial
		}
		pfor(len(frontier), func() bool {
			if run.Expired() || run.Violations() > 20 {
				atomic.StoreInt32(&stopped, 1)
				return true
			}
			return false
		}, func(i int) {
			hist := frontier[i].hist
			s := replay(hist)
			evs := m.Enabled(s, hist, func() Sys { return replay(hist) })
			var out []succ
			for k, e := range evs {
				if k > 0 || s == nil {
					s = replay(hist)
				}
				m.Apply(s, e, hist, true)
				atomic.AddInt64(&st.Transitions, 1)
				c := m.Canon(s)
				s.Close()
				s = nil
				nh := make([]Event, len(hist)+1)
				copy(nh, hist)
				nh[len(hist)] = e
				out = append(out, succ{c, nh})
			}
			if s != nil {
				s.Close()
			}
			results[i] = out
		})
		if atomic.LoadInt32(&stopped) == 1 {
			st.Complete = false
		}
		var next []item
		digest := func(out []succ) string {
			set := map[string]bool{}
			for _, su := range out {
				set[su.canon] = true
			}
			keys := make([]string, 0, len(set))
			for k := range set {
				keys = append(keys, k)
			}
			sort.Strings(keys)
			h := sha256.New()
			for _, k := range keys {
				h.Write([]byte(k))
				h.Write([]byte{0})
			}
			return string(h.Sum(nil))
		}
		if m.CheckMerges > 0 && atomic.LoadInt32(&stopped) == 0 {
			for i, out := range results {
				if !frontier[i].alt {
					vecs[frontier[i].canon] = digest(out)
				}
			}
			for i, out := range results {
				if !frontier[i].alt {
					continue
				}
				st.MergesChecked++
				if v, ok := vecs[frontier[i].canon]; ok && v == digest(out) {
					// sound at one step: every successor is a known state; the successors are still offered as other
					// histories into THOSE states (below), so that a difference that only shows some steps later is
					// followed up; the cap of CheckMerges per state bounds the extra work
					continue
				}
				st.MergesRefined++
				if st.RefinedSample == nil {
					st.RefinedSample = frontier[i].hist
				}
			}
		}
		for _, out := range results {
			for _, su := range out {
				// (an event that leaves the canonical state unchanged counts: a read may plant private state)
				if seen[su.canon] && m.CheckMerges > 0 && altCount[su.canon] < m.CheckMerges && depth+1 < m.MaxDepth {
					altCount[su.canon]++
					next = append(next, item{hist: su.hist, canon: su.canon, alt: true})
					continue
				}
				if !seen[su.canon] {
					seen[su.canon] = true
					if dl := os.Getenv("VERIF_DUMP_LEVEL"); dl != "" && dl == fmt.Sprint(depth+1) {
						fmt.Fprintf(os.Stderr, "CANON L%d %v\n  => %s\n", depth+1, su.hist, su.canon)
					}
					next = append(next, item{hist: su.hist, canon: su.canon})
				}
			}
		}
		st.States = int64(len(seen))
		st.LevelSizes = append(st.LevelSizes, len(next))
		if st.Complete {
			st.DepthDone = depth + 1
		}
		if len(next) > 0 && depth+1 < m.MaxDepth {
			// sample one history per level for the evidence
			run.Sample(map[string]any{"depth": depth + 1, "history": next[len(next)/2].hist})
		}
		frontier = next
		if !st.Complete {
			break
		}
	}
	return st
}

// Replay re-executes a history with live monitors on a fresh system (replay artefacts).
func Replay(m Model, hist []Event) Sys {
	s := m.New()
	for i, e := range hist {
		m.Apply(s, e, hist[:i], true)
	}
	return s
}

var _ = sync.Mutex{}

package vsched

import (
	"bytes"
	"runtime"
	"sync"
	"time"
)

// tracked goroutines started by rewritten `go` statements (free-running mode), for Quiesce.
var (
	trMu   sync.Mutex
	trLive = map[uint64]bool{}
)

// Go replaces `go f()` in rewritten repository files.
func Go(f func()) {
	managedCaller := false
	if s := Active(); s != nil {
		if s.ManageSpawned {
			s.Spawn(f)
			return
		}
		managedCaller = true
	}
	if managedCaller {
		// a free-running goroutine spawned by a scheduled thread: let it run until it parks before the
		// spawning thread continues, so that the execution stays a function of the schedule
		defer Quiesce()
	}
	started := make(chan struct{})
	go func() {
		id := curGoid()
		trMu.Lock()
		trLive[id] = true
		trMu.Unlock()
		close(started)
		defer func() {
			trMu.Lock()
			delete(trLive, id)
			trMu.Unlock()
		}()
		f()
	}()
	<-started
}

// LiveSpawned returns the number of live goroutines started through Go.
func LiveSpawned() int {
	trMu.Lock()
	defer trMu.Unlock()
	return len(trLive)
}

// Quiesce waits until every goroutine started through Go is finished or parked (select / chan receive /
// semacquire etc. — anything but running/runnable). A goroutine whose wake-up condition has become true is
// marked runnable by the runtime synchronously with the operation that made it true (close, send, cancel), so
// once the caller's own operation has returned, "all parked" is a stable state.
func Quiesce() {
	buf := make([]byte, 1<<20)
	stable := 0
	for iter := 0; ; iter++ {
		trMu.Lock()
		n := len(trLive)
		ids := make(map[uint64]bool, n)
		for id := range trLive {
			ids[id] = true
		}
		trMu.Unlock()
		if n == 0 {
			return
		}
		all := buf[:runtime.Stack(buf, true)]
		busy := false
		for _, blk := range bytes.Split(all, []byte("\n\n")) {
			if !bytes.HasPrefix(blk, []byte("goroutine ")) {
				continue
			}
			var id uint64
			i := len("goroutine ")
			for ; i < len(blk) && blk[i] >= '0' && blk[i] <= '9'; i++ {
				id = id*10 + uint64(blk[i]-'0')
			}
			if !ids[id] {
				continue
			}
			// " [status...]:"
			j := bytes.IndexByte(blk[i:], ']')
			if j < 0 {
				busy = true
				continue
			}
			st := string(blk[i+2 : i+j])
			if len(st) >= 7 && (st[:7] == "running" || st[:7] == "runnabl") || len(st) >= 7 && st[:7] == "syscall" || len(st) >= 5 && st[:5] == "sleep" {
				busy = true
			}
		}
		if !busy {
			stable++
			if stable >= 2 {
				return
			}
		} else {
			stable = 0
		}
		if iter > 2000000 {
			panic("vsched.Quiesce: goroutines never parked")
		}
		if iter < 50 {
			runtime.Gosched()
		} else {
			time.Sleep(20 * time.Microsecond)
		}
	}
}

package vsched

import (
	"bytes"
	"runtime"
	"strings"
	"sync"
	"time"
)

// tracked goroutines started by rewritten `go` statements (free-running mode), for Quiesce.
var (
	trMu       sync.Mutex
	trLive     = map[uint64]bool{}
	trStarting int // goroutines handed to the runtime that have not registered themselves yet
)

// Go replaces `go f()` in rewritten repository files.
func Go(f func()) {
	managedCaller := false
	if s := Active(); s != nil {
		if s.ManageSpawned {
			s.Spawn(f)
			return
		}
		managedCaller = true
	}
	if managedCaller {
		// a free-running goroutine spawned by a scheduled thread: let it run until it parks before the
		// spawning thread continues, so that the execution stays a function of the schedule
		defer Quiesce()
	}
	started := make(chan struct{})
	trMu.Lock()
	trStarting++
	trMu.Unlock()
	go func() {
		id := curGoid()
		trMu.Lock()
		trLive[id] = true
		trStarting--
		trMu.Unlock()
		close(started)
		defer func() {
			trMu.Lock()
			delete(trLive, id)
			trMu.Unlock()
		}()
		f()
	}()
	<-started
}

// LiveSpawned returns the number of live goroutines started through Go.
func LiveSpawned() int {
	trMu.Lock()
	defer trMu.Unlock()
	return len(trLive)
}

// Quiesce waits until every goroutine started through Go is finished or parked (select / chan receive /
// semacquire etc. — anything but running/runnable). A goroutine whose wake-up condition has become true is
// marked runnable by the runtime synchronously with the operation that made it true (close, send, cancel), so
// once the caller's own operation has returned, "all parked" is a stable state.
func Quiesce() {
	buf := make([]byte, 1<<20)
	stable := 0
	for iter := 0; ; iter++ {
		trMu.Lock()
		n := len(trLive)
		starting := trStarting
		ids := make(map[uint64]bool, n)
		for id := range trLive {
			ids[id] = true
		}
		trMu.Unlock()
		if starting > 0 {
			// a goroutine has been created but is not registered yet (its creator is parked waiting for it)
			stable = 0
			runtime.Gosched()
			continue
		}
		if n == 0 {
			return
		}
		all := buf[:runtime.Stack(buf, true)]
		if len(all) == len(buf) {
			// truncated dump: some goroutines are not visible; retry with a larger buffer
			buf = make([]byte, 2*len(buf))
			stable = 0
			continue
		}
		busy := false
		found := 0
		for _, blk := range bytes.Split(all, []byte("\n\n")) {
			if !bytes.HasPrefix(blk, []byte("goroutine ")) {
				continue
			}
			var id uint64
			i := len("goroutine ")
			for ; i < len(blk) && blk[i] >= '0' && blk[i] <= '9'; i++ {
				id = id*10 + uint64(blk[i]-'0')
			}
			if !ids[id] {
				continue
			}
			found++
			// " [status...]:"
			j := bytes.IndexByte(blk[i:], ']')
			if j < 0 {
				busy = true
				continue
			}
			st := string(blk[i+2 : i+j])
			// only genuinely parked goroutines count as quiescent; every other status (running, runnable, syscall,
			// sleep, IO wait, and transient runtime waits such as "GC assist wait" or "preempted") is busy
			parked := false
			for _, p := range []string{"chan receive", "chan send", "select", "semacquire", "sync.Mutex.Lock", "sync.RWMutex.Lock", "sync.RWMutex.RLock",
				"sync.Cond.Wait", "sync.WaitGroup.Wait"} {
				if strings.HasPrefix(st, p) {
					parked = true
				}
			}
			if strings.Contains(st, "(scan)") {
				parked = false
			}
			if !parked {
				busy = true
			}
		}
		if found < n {
			busy = true // a tracked goroutine is exiting (not in the dump any more but still registered)
		}
		if !busy {
			stable++
			if stable >= 3 {
				return
			}
		} else {
			stable = 0
		}
		if iter > 2000000 {
			panic("vsched.Quiesce: goroutines never parked")
		}
		if iter < 50 {
			runtime.Gosched()
		} else {
			time.Sleep(20 * time.Microsecond)
		}
	}
}

//go:build !race

package vsched

// plain back-end: channel hand-offs.
type handoff struct{ ch chan struct{} }

func newHandoff() handoff { return handoff{ch: make(chan struct{}, 1)} }
func (h handoff) signal()  { h.ch <- struct{}{} }
func (h handoff) wait()    { <-h.ch }
func (h handoff) close()   {}

// RaceEnabled reports whether this is the race-oracle back-end.
const RaceEnabled = false

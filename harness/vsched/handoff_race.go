//go:build race

package vsched

import "syscall"

// race-oracle back-end: one byte through a pipe with raw syscall.Syscall from //go:norace functions.
// syscall.Syscall carries no race annotations (those live in syscall.Read/Write), so a hand-off creates no
// happens-before edge in the race runtime's vector clocks.
type handoff struct{ r, w int }

//go:norace
func newHandoff() handoff {
	var fds [2]int
	if err := syscall.Pipe(fds[:]); err != nil {
		panic("vsched: pipe: " + err.Error())
	}
	return handoff{r: fds[0], w: fds[1]}
}

var oneByte = [1]byte{1}

//go:norace
func (h handoff) signal() {
	for {
		_, _, e := syscall.Syscall(syscall.SYS_WRITE, uintptr(h.w), uintptr(noescape(&oneByte[0])), 1)
		if e == syscall.EINTR {
			continue
		}
		if e != 0 {
			panic("vsched: write: " + e.Error())
		}
		return
	}
}

//go:norace
func (h handoff) wait() {
	var b [1]byte
	for {
		n, _, e := syscall.Syscall(syscall.SYS_READ, uintptr(h.r), uintptr(noescape(&b[0])), 1)
		if e == syscall.EINTR {
			continue
		}
		if e != 0 {
			panic("vsched: read: " + e.Error())
		}
		if n == 1 {
			return
		}
	}
}

//go:norace
func (h handoff) close() {
	syscall.Close(h.r)
	syscall.Close(h.w)
}

const RaceEnabled = true

package vsched

import "unsafe"

//go:norace
func noescape(p *byte) unsafe.Pointer { return unsafe.Pointer(p) }

// Package vsched is a cooperative scheduler for exhaustive schedule exploration of the real code.
//
// Exactly one managed thread runs at a time (it "holds the baton"). A thread yields only at Points.
// All bookkeeping lives in //go:norace functions over slices (no maps, no sync, no atomics, no channels in
// the race build), so that under -race the scheduler adds NO happens-before edges between the threads of
// the program under test: the hand-off primitive of the race build is a raw pipe read/write (see
// handoff_race.go), which the race runtime does not see.
package vsched

import (
	"runtime"
	"sync"
)

// Point describes one scheduling decision.
type Point struct {
	Thread  int    // thread that reached the point
	Kind    string // "lock", "store:GetTokenResponse", "idp", "end", "block", ...
	Obj     string
	Enabled []int // canonical order: running first if enabled, then ascending ids
	Chosen  int   // index into Enabled
	Free    bool  // true when the running thread is not enabled (switch costs no pre-emption)
}

// Chooser picks the index into p.Enabled to run next. step is the index of the point in the execution.
type Chooser func(step int, p *Point) int

const (
	stRunnable = iota
	stBlocked
	stDone
)

type thread struct {
	id      int
	state   int
	blocked *Waitable
	goid    uint64
	h       handoff
	panicV  any
	panicked bool
	stack   []byte
}

// Waitable is something a thread can block on (a modelled mutex, once, waitgroup).
type Waitable struct {
	Name string
}

// Sched is one controlled execution.
type Sched struct {
	threads  []*thread
	running  int
	chooser  Chooser
	Trace    []Point
	Deadlock bool
	Aborted  string
	mainH    handoff
	steps    int
	MaxSteps int
	// SyncPoints controls whether vsync operations are scheduling points (they are always modelled for blocking).
	SyncPoints bool
	// ManageSpawned controls whether goroutines started by rewritten `go` statements become managed threads.
	ManageSpawned bool
	// FuncPoints: function entries of the repository's own packages are scheduling points (race-oracle builds).
	FuncPoints bool
	finished int
	join     sync.WaitGroup // real join edge thread-end -> main (adds no edge between threads)
}

var active *Sched

// Active returns the scheduler if the caller is the managed thread currently holding the baton.
//
//go:norace
func Active() *Sched {
	s := active
	if s == nil {
		return nil
	}
	if s.running < 0 || s.running >= len(s.threads) {
		return nil
	}
	t := s.threads[s.running]
	if t.goid != curGoid() {
		return nil
	}
	return s
}

// Running returns the id of the running managed thread.
//
//go:norace
func (s *Sched) Running() int { return s.running }

// Steps returns the number of points executed so far (a global logical clock for monitors).
//
//go:norace
func (s *Sched) Steps() int { return s.steps }

// Result of one thread.
type ThreadResult struct {
	Panicked bool
	Panic    any
	Stack    string
}

// Run executes the bodies as managed threads under chooser until all are done or a deadlock is found.
//
//go:norace
func Run(bodies []func(), chooser Chooser, syncPoints bool) (*Sched, []ThreadResult) {
	s := &Sched{chooser: chooser, SyncPoints: syncPoints, MaxSteps: 100000, FuncPoints: DefaultFuncPoints}
	s.mainH = newHandoff()
	for i := range bodies {
		t := &thread{id: i, state: stRunnable, h: newHandoff()}
		s.threads = append(s.threads, t)
	}
	s.running = -1
	active = s
	s.join.Add(len(bodies))
	for i, b := range bodies {
		startThread(s, s.threads[i], b)
	}
	// initial choice: which thread starts
	en := s.enabledFrom(-1)
	p := Point{Thread: -1, Kind: "start", Enabled: en, Free: true}
	c := s.choose(&p)
	s.running = en[c]
	var stopWD chan struct{}
	if OnRealDeadlock != nil {
		stopWD = make(chan struct{})
		go s.watchdog(stopWD)
	} else if StallPatience > 0 {
		stopWD = make(chan struct{})
		go s.stallGuard(stopWD)
	}
	s.threads[s.running].h.signal()
	s.mainH.wait()
	if stopWD != nil {
		close(stopWD)
	}
	active = nil
	if !s.Deadlock && s.Aborted == "" {
		s.join.Wait()
	}
	res := make([]ThreadResult, len(bodies))
	for i, t := range s.threads[:len(bodies)] {
		res[i] = ThreadResult{Panicked: t.panicked, Panic: t.panicV, Stack: string(t.stack)}
	}
	if !s.Deadlock && s.Aborted == "" {
		for _, t := range s.threads {
			t.h.close()
		}
		s.mainH.close()
	}
	return s, res
}

//go:norace
func startThread(s *Sched, t *thread, body func()) {
	go threadMain(s, t, body)
}

//go:norace
func threadMain(s *Sched, t *thread, body func()) {
	t.goid = curGoid()
	t.h.wait()
	runBody(t, body)
	s.threadEnd(t)
}

func runBody(t *thread, body func()) {
	defer func() {
		if r := recover(); r != nil {
			setPanic(t, r)
		}
	}()
	body()
}

//go:norace
func setPanic(t *thread, r any) {
	t.panicked = true
	t.panicV = r
	buf := make([]byte, 16384)
	t.stack = buf[:runtime.Stack(buf, false)]
}

//go:norace
func (s *Sched) enabledFrom(running int) []int {
	var en []int
	if running >= 0 && s.threads[running].state == stRunnable {
		en = append(en, running)
	}
	for _, t := range s.threads {
		if t.id != running && t.state == stRunnable {
			en = append(en, t.id)
		}
	}
	return en
}

//go:norace
func (s *Sched) choose(p *Point) int {
	c := 0
	if len(p.Enabled) > 1 {
		c = s.chooser(len(s.Trace), p)
		if c < 0 || c >= len(p.Enabled) {
			panic("vsched: chooser returned out-of-range choice (replay divergence)")
		}
	}
	p.Chosen = c
	s.Trace = append(s.Trace, *p)
	s.steps++
	return c
}

// Point is a scheduling point of the running thread.
//
//go:norace
func (s *Sched) Point(kind, obj string) {
	me := s.running
	if s.steps > s.MaxSteps {
		s.abort("step limit")
		return
	}
	en := s.enabledFrom(me)
	p := Point{Thread: me, Kind: kind, Obj: obj, Enabled: en}
	c := s.choose(&p)
	next := en[c]
	if next != me {
		s.switchTo(me, next)
	}
}

//go:norace
func (s *Sched) switchTo(me, next int) {
	s.running = next
	s.threads[next].h.signal()
	s.threads[me].h.wait()
}

// Block parks the running thread until w is signalled with Wake. Returns false on deadlock (the
// execution is aborted and the caller must not continue touching shared state).
//
//go:norace
func (s *Sched) Block(w *Waitable) bool {
	me := s.running
	t := s.threads[me]
	t.state = stBlocked
	t.blocked = w
	en := s.enabledFrom(me)
	if len(en) == 0 {
		s.Deadlock = true
		s.running = -1
		s.mainH.signal()
		t.h.wait() // parked forever
		return false
	}
	p := Point{Thread: me, Kind: "block", Obj: w.Name, Enabled: en, Free: true}
	c := s.choose(&p)
	s.switchTo(me, en[c])
	return true
}

// Wake makes every thread blocked on w runnable again.
//
//go:norace
func (s *Sched) Wake(w *Waitable) {
	for _, t := range s.threads {
		if t.state == stBlocked && t.blocked == w {
			t.state = stRunnable
			t.blocked = nil
		}
	}
}

//go:norace
func (s *Sched) abort(why string) {
	if s.Aborted == "" {
		s.Aborted = why
	}
	me := s.running
	s.running = -1
	s.mainH.signal()
	s.threads[me].h.wait()
}

//go:norace
func (s *Sched) threadEnd(t *thread) {
	t.state = stDone
	s.finished++
	s.join.Done()
	en := s.enabledFrom(t.id)
	if len(en) == 0 {
		alldone := true
		for _, o := range s.threads {
			if o.state != stDone {
				alldone = false
			}
		}
		if !alldone {
			s.Deadlock = true
		}
		s.running = -1
		s.mainH.signal()
		return
	}
	p := Point{Thread: t.id, Kind: "end", Enabled: en, Free: true}
	c := s.choose(&p)
	s.running = en[c]
	s.threads[s.running].h.signal()
}

// Spawn adds a managed thread from inside a running thread (rewritten go statements when ManageSpawned).
//
//go:norace
func (s *Sched) Spawn(body func()) {
	t := &thread{id: len(s.threads), state: stRunnable, h: newHandoff()}
	s.threads = append(s.threads, t)
	s.join.Add(1)
	startThread(s, t, body)
}

//go:norace
func curGoid() uint64 {
	var buf [64]byte
	n := runtime.Stack(buf[:], false)
	// "goroutine 123 ["
	var id uint64
	for i := len("goroutine "); i < n; i++ {
		c := buf[i]
		if c < '0' || c > '9' {
			break
		}
		id = id*10 + uint64(c-'0')
	}
	return id
}

// FuncPoint is inserted by ovgen -funcpoints at the entry of every function of the repository's own packages.
//
//go:norace
func FuncPoint(name string) {
	if active == nil {
		return
	}
	if s := Active(); s != nil && s.FuncPoints {
		s.Point("fn", name)
	}
}

// DefaultFuncPoints is copied into every new Sched.
var DefaultFuncPoints bool

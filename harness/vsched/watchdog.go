package vsched

import (
	"bytes"
	"fmt"
	"os"
	"runtime"
	"sort"
	"strings"
	"time"
)

// OnRealDeadlock, when set, arms a watchdog for every execution: the cooperative scheduler models the locks of
// managed threads, but a lock taken by a goroutine the repository started itself (a file-watcher loop, say) is a real
// lock, and a managed thread that waits for it waits in the operating system. If such a wait can never end the
// execution would simply hang. The watchdog declares a deadlock when (1) no scheduling step has been made for
// RealDeadlockPatience, (2) the running managed thread is parked in a lock wait, (3) no goroutine of the process is
// running, runnable or sleeping on a timer, and (4) two dumps one second apart show exactly the same goroutine
// states. The hook gets a description (the trace so far, who waits where) and must not return into the execution
// (the blocked threads cannot be unblocked): it records the finding and ends the process.
var (
	OnRealDeadlock       func(info string)
	RealDeadlockPatience = 4 * time.Second
	// StallPatience: when no hook is set, an execution in which nothing has moved for this long and whose baton
	// holder is parked in a wait the scheduler does not model (a real lock, a WaitGroup or a channel of code that is
	// not rewritten, e.g. x/sync/singleflight) is given up: the process reports a harness error and exits with 2
	// instead of hanging forever. (Such a wait may well be satisfiable by another managed thread - the scheduler just
	// cannot know; this is a limit of the machinery, not a verdict.)
	StallPatience = 45 * time.Second
)

//go:norace
func (s *Sched) watchdog(stop <-chan struct{}) {
	last, since := -1, time.Now()
	prev := ""
	for {
		select {
		case <-stop:
			return
		case <-time.After(500 * time.Millisecond):
		}
		if st := s.steps; st != last {
			last, since, prev = st, time.Now(), ""
			continue
		}
		if time.Since(since) < RealDeadlockPatience || s.running < 0 || s.running >= len(s.threads) {
			continue
		}
		states, runningState, ok := s.goroutineStates()
		if !ok {
			prev = ""
			continue
		}
		if prev == "" || prev != states {
			prev = states
			time.Sleep(time.Second)
			continue
		}
		// static for a second, nothing can run, the baton holder waits for a lock
		var tr []string
		for _, p := range s.Trace {
			tr = append(tr, fmt.Sprintf("[t%d %s]", p.Thread, p.Kind))
		}
		if len(tr) > 60 {
			tr = tr[len(tr)-60:]
		}
		OnRealDeadlock(fmt.Sprintf("thread %d holds the baton and is parked in %q; no goroutine of the process can run; last scheduling points: %s\n%s",
			s.running, runningState, strings.Join(tr, " "), s.lockWaitStacks()))
		return
	}
}

// stallGuard: see StallPatience.
//
//go:norace
func (s *Sched) stallGuard(stop <-chan struct{}) {
	last, since := -1, time.Now()
	for {
		select {
		case <-stop:
			return
		case <-time.After(2 * time.Second):
		}
		if st := s.steps; st != last {
			last, since = st, time.Now()
			continue
		}
		if time.Since(since) < StallPatience || s.running < 0 || s.running >= len(s.threads) {
			continue
		}
		if _, runningState, waiting := s.goroutineStates(); waiting || strings.HasPrefix(runningState, "chan ") || strings.HasPrefix(runningState, "select") ||
			strings.HasPrefix(runningState, "sync.WaitGroup.Wait") || strings.HasPrefix(runningState, "sync.Cond.Wait") {
			fmt.Printf("HARNESS-ERROR: an execution has not moved for %v: managed thread %d is parked in %q, a wait the cooperative scheduler does not model; giving up instead of hanging\n%s\n",
				StallPatience, s.running, runningState, s.lockWaitStacks())
			os.Exit(2)
		}
	}
}

// goroutineStates returns a canonical listing of (goroutine, state), the state of the running managed thread, and
// whether the picture is that of a dead system (see OnRealDeadlock).
//
//go:norace
func (s *Sched) goroutineStates() (string, string, bool) {
	buf := make([]byte, 4<<20)
	all := buf[:runtime.Stack(buf, true)]
	if len(all) == len(buf) {
		return "", "", false
	}
	me := curGoid()
	runner := s.threads[s.running].goid
	managed := map[uint64]bool{}
	for _, t := range s.threads {
		managed[t.goid] = true
	}
	var lines []string
	runningState := ""
	for _, blk := range bytes.Split(all, []byte("\n\n")) {
		if !bytes.HasPrefix(blk, []byte("goroutine ")) {
			continue
		}
		var id uint64
		i := len("goroutine ")
		for ; i < len(blk) && blk[i] >= '0' && blk[i] <= '9'; i++ {
			id = id*10 + uint64(blk[i]-'0')
		}
		j := bytes.IndexByte(blk[i:], ']')
		if j < 0 {
			return "", "", false
		}
		st := string(blk[i+2 : i+j])
		if k := strings.Index(st, ","); k >= 0 {
			st = st[:k] // drop ", 2 minutes"
		}
		if id == me {
			continue
		}
		if id == runner {
			runningState = st
		}
		switch {
		case strings.HasPrefix(st, "running"), strings.HasPrefix(st, "runnable"), strings.HasPrefix(st, "sleep"), strings.Contains(st, "(scan)"),
			strings.HasPrefix(st, "GC "), strings.HasPrefix(st, "preempted"):
			return "", "", false
		case strings.HasPrefix(st, "syscall"):
			// managed threads wait for the baton in a raw read(2); anything else in a system call may come back
			if !managed[id] && !bytes.Contains(blk, []byte("vsched.")) && !bytes.Contains(blk, []byte("os/signal.")) {
				return "", "", false
			}
		}
		lines = append(lines, fmt.Sprintf("%d:%s", id, st))
	}
	sort.Strings(lines)
	lockWait := false
	for _, p := range []string{"sync.Mutex.Lock", "sync.RWMutex.Lock", "sync.RWMutex.RLock", "semacquire"} {
		if strings.HasPrefix(runningState, p) {
			lockWait = true
		}
	}
	return strings.Join(lines, ";"), runningState, lockWait
}

// lockWaitStacks renders the stacks of all goroutines parked in a lock wait (who waits for what).
//
//go:norace
func (s *Sched) lockWaitStacks() string {
	buf := make([]byte, 4<<20)
	all := buf[:runtime.Stack(buf, true)]
	var out []string
	for _, blk := range bytes.Split(all, []byte("\n\n")) {
		hdr := blk
		if k := bytes.IndexByte(blk, '\n'); k >= 0 {
			hdr = blk[:k]
		}
		if bytes.Contains(hdr, []byte("sync.Mutex.Lock")) || bytes.Contains(hdr, []byte("sync.RWMutex.")) || bytes.Contains(hdr, []byte("semacquire")) {
			ls := strings.Split(string(blk), "\n")
			if len(ls) > 17 {
				ls = ls[:17]
			}
			out = append(out, strings.Join(ls, "\n"))
		}
	}
	return strings.Join(out, "\n\n")
}

// Package vsync replaces "sync" in rewritten repository files. Every operation performs the REAL sync
// operation (so the race detector sees exactly the program's own happens-before edges); under an active
// vsched scheduler it is additionally modelled (a thread asking for a held mutex is disabled until release)
// and, when Sched.SyncPoints is set, announced as a scheduling point first.
package vsync

import (
	"fmt"
	"sync"

	"github.com/istio-ecosystem/authservice/zzverif/vsched"
)

type (
	Locker = sync.Locker
	Map    = sync.Map
	Pool   = sync.Pool
	Cond   = sync.Cond
)

func NewCond(l Locker) *Cond { return sync.NewCond(l) }

// OnceFunc, OnceValue and OnceValues are the standard library's, built on the modelled Once (a thread that calls
// one while another is still inside the function is disabled until it returns, instead of blocking the process).
func OnceFunc(f func()) func() {
	var (
		once  Once
		valid bool
		p     any
	)
	g := func() {
		defer func() {
			p = recover()
			if !valid {
				panic(p)
			}
		}()
		f()
		f = nil
		valid = true
	}
	return func() {
		once.Do(g)
		if !valid {
			panic(p)
		}
	}
}

func OnceValue[T any](f func() T) func() T {
	var (
		once   Once
		valid  bool
		p      any
		result T
	)
	g := func() {
		defer func() {
			p = recover()
			if !valid {
				panic(p)
			}
		}()
		result = f()
		f = nil
		valid = true
	}
	return func() T {
		once.Do(g)
		if !valid {
			panic(p)
		}
		return result
	}
}

func OnceValues[T1, T2 any](f func() (T1, T2)) func() (T1, T2) {
	var (
		once  Once
		valid bool
		p     any
		r1    T1
		r2    T2
	)
	g := func() {
		defer func() {
			p = recover()
			if !valid {
				panic(p)
			}
		}()
		r1, r2 = f()
		f = nil
		valid = true
	}
	return func() (T1, T2) {
		once.Do(g)
		if !valid {
			panic(p)
		}
		return r1, r2
	}
}

// Mutex is a modelled sync.Mutex.
type Mutex struct {
	real sync.Mutex
	held bool
	w    *vsched.Waitable
}

//go:norace
func (m *Mutex) name() string { return fmt.Sprintf("mutex@%p", m) }

//go:norace
func (m *Mutex) pre(op string) *vsched.Sched {
	s := vsched.Active()
	if s == nil {
		return nil
	}
	if m.w == nil {
		m.w = &vsched.Waitable{Name: "mutex"}
	}
	if s.SyncPoints {
		s.Point(op, "mutex")
	}
	return s
}

//go:norace
func (m *Mutex) acquire(s *vsched.Sched) {
	for m.held {
		if !s.Block(m.w) {
			return
		}
	}
	m.held = true
}

//go:norace
func (m *Mutex) release(s *vsched.Sched) {
	m.held = false
	s.Wake(m.w)
}

func (m *Mutex) Lock() {
	if s := m.pre("lock"); s != nil {
		m.acquire(s)
	}
	m.real.Lock()
}

func (m *Mutex) TryLock() bool {
	if s := m.pre("trylock"); s != nil {
		if isHeld(m) {
			return false
		}
		ok := m.real.TryLock()
		if ok {
			setHeld(m, true)
		}
		return ok
	}
	return m.real.TryLock()
}

//go:norace
func isHeld(m *Mutex) bool { return m.held }

//go:norace
func setHeld(m *Mutex, v bool) { m.held = v }

func (m *Mutex) Unlock() {
	m.real.Unlock()
	if s := vsched.Active(); s != nil && m.w != nil {
		m.release(s)
	} else {
		setHeld(m, false)
	}
}

// RWMutex is a modelled sync.RWMutex.
type RWMutex struct {
	real    sync.RWMutex
	writer  bool
	readers int
	w       *vsched.Waitable
}

//go:norace
func (m *RWMutex) pre(op string) *vsched.Sched {
	s := vsched.Active()
	if s == nil {
		return nil
	}
	if m.w == nil {
		m.w = &vsched.Waitable{Name: "rwmutex"}
	}
	if s.SyncPoints {
		s.Point(op, "rwmutex")
	}
	return s
}

//go:norace
func (m *RWMutex) acquireW(s *vsched.Sched) {
	for m.writer || m.readers > 0 {
		if !s.Block(m.w) {
			return
		}
	}
	m.writer = true
}

//go:norace
func (m *RWMutex) acquireR(s *vsched.Sched) {
	for m.writer {
		if !s.Block(m.w) {
			return
		}
	}
	m.readers++
}

//go:norace
func (m *RWMutex) releaseW(s *vsched.Sched) {
	m.writer = false
	if s != nil && m.w != nil {
		s.Wake(m.w)
	}
}

//go:norace
func (m *RWMutex) releaseR(s *vsched.Sched) {
	if m.readers > 0 {
		m.readers--
	}
	if s != nil && m.w != nil {
		s.Wake(m.w)
	}
}

func (m *RWMutex) Lock() {
	if s := m.pre("lock"); s != nil {
		m.acquireW(s)
	}
	m.real.Lock()
}

func (m *RWMutex) Unlock() {
	m.real.Unlock()
	m.releaseW(vsched.Active())
}

func (m *RWMutex) RLock() {
	if s := m.pre("rlock"); s != nil {
		m.acquireR(s)
	}
	m.real.RLock()
}

func (m *RWMutex) RUnlock() {
	m.real.RUnlock()
	m.releaseR(vsched.Active())
}

func (m *RWMutex) TryLock() bool  { return m.real.TryLock() }
func (m *RWMutex) TryRLock() bool { return m.real.TryRLock() }
func (m *RWMutex) RLocker() Locker { return (*rlocker)(m) }

type rlocker RWMutex

func (r *rlocker) Lock()   { (*RWMutex)(r).RLock() }
func (r *rlocker) Unlock() { (*RWMutex)(r).RUnlock() }

// Once is a modelled sync.Once.
type Once struct {
	mu   Mutex
	done bool
}

func (o *Once) Do(f func()) {
	o.mu.Lock()
	defer o.mu.Unlock()
	if !o.done {
		defer func() { o.done = true }()
		f()
	}
}

// WaitGroup: real wait group; Wait under the scheduler is modelled by polling at points.
type WaitGroup struct {
	real sync.WaitGroup
	n    int
	w    *vsched.Waitable
}

//go:norace
func (g *WaitGroup) add(d int) (zero bool) {
	g.n += d
	return g.n <= 0
}

func (g *WaitGroup) Add(d int) {
	g.real.Add(d)
	z := g.add(d)
	if s := vsched.Active(); s != nil && z && g.w != nil {
		s.Wake(g.w)
	}
}

func (g *WaitGroup) Done() { g.Add(-1) }

//go:norace
func (g *WaitGroup) waitModel(s *vsched.Sched) {
	if g.w == nil {
		g.w = &vsched.Waitable{Name: "waitgroup"}
	}
	if s.SyncPoints {
		s.Point("wgwait", "waitgroup")
	}
	for g.n > 0 {
		if !s.Block(g.w) {
			return
		}
	}
}

func (g *WaitGroup) Wait() {
	if s := vsched.Active(); s != nil {
		g.waitModel(s)
	}
	g.real.Wait()
}

func (g *WaitGroup) Go(f func()) {
	g.Add(1)
	vsched.Go(func() {
		defer g.Done()
		f()
	})
}

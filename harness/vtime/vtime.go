// Package vtime replaces time.NewTicker/Ticker/Sleep/After in rewritten repository files. When virtual mode is
// on, tickers never fire by themselves: the harness fires them with FireAll at quiescence.
package vtime

import (
	"sync"
	"time"
)

var (
	mu      sync.Mutex
	virtual bool
	tickers []*Ticker
)

// SetVirtual switches virtual mode (affects tickers created afterwards) and forgets earlier tickers.
func SetVirtual(v bool) {
	mu.Lock()
	defer mu.Unlock()
	virtual = v
	tickers = nil
}

type Ticker struct {
	C        <-chan time.Time
	c        chan time.Time
	real     *time.Ticker
	stopped  bool
	Interval time.Duration
}

func NewTicker(d time.Duration) *Ticker {
	mu.Lock()
	defer mu.Unlock()
	if !virtual {
		r := time.NewTicker(d)
		return &Ticker{C: r.C, real: r, Interval: d}
	}
	if d <= 0 {
		panic("non-positive interval for NewTicker")
	}
	c := make(chan time.Time, 1)
	t := &Ticker{C: c, c: c, Interval: d}
	tickers = append(tickers, t)
	return t
}

func (t *Ticker) Stop() {
	mu.Lock()
	defer mu.Unlock()
	t.stopped = true
	if t.real != nil {
		t.real.Stop()
	}
}

func (t *Ticker) Reset(d time.Duration) {
	if t.real != nil {
		t.real.Reset(d)
	}
}

// Live returns the number of virtual tickers that have not been stopped.
func Live() int {
	mu.Lock()
	defer mu.Unlock()
	n := 0
	for _, t := range tickers {
		if !t.stopped {
			n++
		}
	}
	return n
}

// FireAll delivers one tick to every live virtual ticker (like a real ticker it drops the tick if the
// previous one has not been consumed). Returns how many were delivered.
func FireAll(now time.Time) int {
	mu.Lock()
	defer mu.Unlock()
	n := 0
	for _, t := range tickers {
		if t.stopped {
			continue
		}
		select {
		case t.c <- now:
			n++
		default:
		}
	}
	return n
}

func Sleep(d time.Duration) {
	mu.Lock()
	v := virtual
	mu.Unlock()
	if v {
		return
	}
	time.Sleep(d)
}

func After(d time.Duration) <-chan time.Time { return time.After(d) }
func Tick(d time.Duration) <-chan time.Time  { return time.Tick(d) }

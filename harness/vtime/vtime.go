// Package vtime replaces time.NewTicker/Ticker/Sleep/After in rewritten repository files. When virtual mode is
// on, tickers never fire by themselves: the harness fires them with FireAll at quiescence.
package vtime

import (
	"sort"
	"sync"
	"sync/atomic"
	"time"
)

var (
	mu      sync.Mutex
	virtual bool
	tickers []*Ticker
	vnow    time.Duration // virtual time elapsed since SetVirtual (used by AdvanceBy)
)

// SetVirtual switches virtual mode (affects tickers created afterwards) and forgets earlier tickers.
func SetVirtual(v bool) {
	mu.Lock()
	defer mu.Unlock()
	virtual = v
	tickers = nil
	vnow = 0
}

type Ticker struct {
	C        <-chan time.Time
	c        chan time.Time
	real     *time.Ticker
	stopped  bool
	Interval time.Duration
	next     time.Duration // virtual time of the next tick (AdvanceBy)
}

func NewTicker(d time.Duration) *Ticker {
	mu.Lock()
	defer mu.Unlock()
	if !virtual {
		r := time.NewTicker(d)
		return &Ticker{C: r.C, real: r, Interval: d}
	}
	if d <= 0 {
		panic("non-positive interval for NewTicker")
	}
	c := make(chan time.Time, 1)
	t := &Ticker{C: c, c: c, Interval: d, next: vnow + d}
	tickers = append(tickers, t)
	return t
}

func (t *Ticker) Stop() {
	mu.Lock()
	defer mu.Unlock()
	t.stopped = true
	if t.real != nil {
		t.real.Stop()
	}
}

func (t *Ticker) Reset(d time.Duration) {
	if t.real != nil {
		t.real.Reset(d)
		return
	}
	if d <= 0 {
		panic("non-positive interval for Ticker.Reset")
	}
	mu.Lock()
	defer mu.Unlock()
	t.Interval = d
	t.next = vnow + d
}

// AdvanceBy moves virtual time forward by d and delivers a tick to every live virtual ticker whose period has
// elapsed meanwhile (one tick, like a real ticker whose reader was slow; a ticker with a longer period does NOT
// fire). Returns how many ticks were delivered.
func AdvanceBy(d time.Duration) int {
	mu.Lock()
	defer mu.Unlock()
	vnow += d
	n := 0
	for _, t := range tickers {
		if t.stopped || t.next > vnow {
			continue
		}
		for t.next <= vnow {
			t.next += t.Interval
		}
		select {
		case t.c <- time.Now():
			n++
		default:
		}
	}
	return n
}

// Periods lists the periods of the live virtual tickers (sorted): part of a system's state.
func Periods() []time.Duration {
	mu.Lock()
	defer mu.Unlock()
	var ps []time.Duration
	for _, t := range tickers {
		if !t.stopped {
			ps = append(ps, t.Interval)
		}
	}
	sort.Slice(ps, func(i, j int) bool { return ps[i] < ps[j] })
	return ps
}

// Live returns the number of virtual tickers that have not been stopped.
func Live() int {
	mu.Lock()
	defer mu.Unlock()
	n := 0
	for _, t := range tickers {
		if !t.stopped {
			n++
		}
	}
	return n
}

// FireAll delivers one tick to every live virtual ticker (like a real ticker it drops the tick if the
// previous one has not been consumed). Returns how many were delivered.
func FireAll(now time.Time) int {
	mu.Lock()
	defer mu.Unlock()
	n := 0
	for _, t := range tickers {
		if t.stopped {
			continue
		}
		select {
		case t.c <- now:
			n++
		default:
		}
	}
	return n
}

func Sleep(d time.Duration) {
	mu.Lock()
	v := virtual
	mu.Unlock()
	if v {
		return
	}
	time.Sleep(d)
}

// shift is what the harness has added to the repository's view of the wall clock (nanoseconds).
var shift atomic.Int64

// Shift moves the wall clock the repository's code sees (time.Now/Since/Until in rewritten files) forward by d,
// process-wide: "two minutes later" without waiting for them. Harness code keeps the real clock.
func Shift(d time.Duration) { shift.Add(int64(d)) }

// Shifted returns the total shift applied so far.
func Shifted() time.Duration { return time.Duration(shift.Load()) }

func Now() time.Time                  { return time.Now().Add(time.Duration(shift.Load())) }
func Since(t time.Time) time.Duration { return Now().Sub(t) }
func Until(t time.Time) time.Duration { return t.Sub(Now()) }

func After(d time.Duration) <-chan time.Time { return time.After(d) }
func Tick(d time.Duration) <-chan time.Time  { return time.Tick(d) }

package world

import (
	"bufio"
	"bytes"
	"context"
	"crypto/tls"
	"fmt"
	"io"
	"net"
	"net/http"
	"strings"
)

// Canned network: http.DefaultTransport dials connections that are answered in-process by a pure function
// of the request, with no state shared between connections. Unlike an in-memory HTTP server (accept loop,
// shared handler state) this creates NO happens-before edge between two threads that both talk to the
// provider, so it does not blind the race oracle (C16).

// Responder answers one HTTP request; it must only read data that was complete before the threads started.
type Responder func(r *http.Request, body []byte) (status int, respBody []byte)

var cannedHosts map[string]Responder
var cannedTLS map[string]*tls.Certificate

// InstallCannedNet replaces the default transport's dialer. hosts and tlsHosts must not be modified afterwards
// (until the next call, made when no thread is running).
func InstallCannedNet(hosts map[string]Responder, tlsHosts map[string]*tls.Certificate) {
	cannedHosts = hosts
	cannedTLS = tlsHosts
	tr := http.DefaultTransport.(*http.Transport)
	tr.Proxy = nil
	tr.DialContext = func(ctx context.Context, network, addr string) (net.Conn, error) {
		host := addr
		if h, _, err := net.SplitHostPort(addr); err == nil {
			host = h
		}
		resp, ok := cannedHosts[host]
		if !ok {
			return nil, fmt.Errorf("cannednet: connection refused to %s", addr)
		}
		c, s := net.Pipe()
		go serveCanned(s, resp, cannedTLS[host])
		return c, nil
	}
}

func serveCanned(s net.Conn, resp Responder, cert *tls.Certificate) {
	defer s.Close()
	var conn net.Conn = s
	if cert != nil {
		t := tls.Server(s, &tls.Config{Certificates: []tls.Certificate{*cert}})
		if err := t.Handshake(); err != nil {
			return
		}
		conn = t
	}
	br := bufio.NewReader(conn)
	for {
		req, err := http.ReadRequest(br)
		if err != nil {
			return
		}
		body, _ := io.ReadAll(req.Body)
		status, rb := resp(req, body)
		var buf bytes.Buffer
		fmt.Fprintf(&buf, "HTTP/1.1 %d %s\r\nContent-Type: application/json\r\nContent-Length: %d\r\n\r\n", status, http.StatusText(status), len(rb))
		buf.Write(rb)
		if _, err := conn.Write(buf.Bytes()); err != nil {
			return
		}
	}
}

// CannedIdP builds a responder for one realm: discovery document, JWKS, and a token endpoint that answers from a
// table prepared before the threads start (key: code or refresh token).
func CannedIdP(base string, tokenAnswers map[string][]byte) Responder {
	disc := []byte(fmt.Sprintf(`{"issuer":%q,"authorization_endpoint":%q,"token_endpoint":%q,"jwks_uri":%q,"end_session_endpoint":%q}`,
		base, base+"/auth", base+"/token", base+"/jwks", base+"/logout"))
	jwks := []byte(JWKS(KeyEC, KeyRSA))
	return func(r *http.Request, body []byte) (int, []byte) {
		switch {
		case strings.HasSuffix(r.URL.Path, "/.well-known/openid-configuration"):
			return 200, disc
		case strings.HasSuffix(r.URL.Path, "/jwks"):
			return 200, jwks
		case strings.HasSuffix(r.URL.Path, "/token"):
			form := string(body)
			for key, ans := range tokenAnswers {
				if strings.Contains(form, "code="+key) || strings.Contains(form, "refresh_token="+key) {
					return 200, ans
				}
			}
			return 400, []byte(`{"error":"invalid_grant"}`)
		}
		return 404, []byte(`{}`)
	}
}

package world

import (
	"sync/atomic"
	"bufio"
	"bytes"
	"context"
	"crypto/tls"
	"fmt"
	"io"
	"net"
	"net/http"
	"strings"
)

// Canned network: http.DefaultTransport dials connections that are answered in-process by a pure function
// of the request, with no state shared between connections. Unlike an in-memory HTTP server (accept loop,
// shared handler state) this creates NO happens-before edge between two threads that both talk to the
// provider, so it does not blind the race oracle (C16).

// Responder answers one HTTP request; it must only read data that was complete before the threads started.
type Responder func(r *http.Request, body []byte) (status int, respBody []byte)

var cannedHosts map[string]Responder
var cannedTLS map[string]*tls.Certificate

// InstallCannedNet replaces the default transport's dialer. hosts and tlsHosts must not be modified afterwards
// (until the next call, made when no thread is running).
func InstallCannedNet(hosts map[string]Responder, tlsHosts map[string]*tls.Certificate) {
	cannedHosts = hosts
	cannedTLS = tlsHosts
	tr := http.DefaultTransport.(*http.Transport)
	tr.Proxy = nil
	tr.DialContext = func(ctx context.Context, network, addr string) (net.Conn, error) {
		host := addr
		if h, _, err := net.SplitHostPort(addr); err == nil {
			host = h
		}
		resp, ok := cannedHosts[host]
		if !ok {
			return nil, fmt.Errorf("cannednet: connection refused to %s", addr)
		}
		c, s := net.Pipe()
		go serveCanned(s, resp, cannedTLS[host])
		return c, nil
	}
}

func serveCanned(s net.Conn, resp Responder, cert *tls.Certificate) {
	defer s.Close()
	var conn net.Conn = s
	if cert != nil {
		t := tls.Server(s, &tls.Config{Certificates: []tls.Certificate{*cert}})
		if err := t.Handshake(); err != nil {
			return
		}
		conn = t
	}
	br := bufio.NewReader(conn)
	for {
		req, err := http.ReadRequest(br)
		if err != nil {
			return
		}
		body, _ := io.ReadAll(req.Body)
		status, rb := resp(req, body)
		var buf bytes.Buffer
		// (documents are served with the cache directives many providers send; a client is free to ignore them)
		fmt.Fprintf(&buf, "HTTP/1.1 %d %s\r\nContent-Type: application/json\r\nCache-Control: public, max-age=1\r\nContent-Length: %d\r\n\r\n", status, http.StatusText(status), len(rb))
		buf.Write(rb)
		if _, err := conn.Write(buf.Bytes()); err != nil {
			return
		}
	}
}

// CannedIdP builds a responder for one realm: discovery document, JWKS, and a token endpoint that answers from a
// table prepared before the threads start (key: code or refresh token).
func CannedIdP(base string, tokenAnswers map[string][]byte) Responder {
	return CannedIdPDoc(base, tokenAnswers, false)
}

// CannedIdPMoving is a provider whose discovery document changes with every fetch (its endpoints move from /auth to
// /v2/auth, /v3/auth, ...; all of them are served): a client that fetches the document once never notices.
func CannedIdPMoving(base string, tokenAnswers map[string][]byte) Responder {
	inner := CannedIdPDoc(base, tokenAnswers, false)
	var fetches int64
	return func(r *http.Request, body []byte) (int, []byte) {
		if strings.HasSuffix(r.URL.Path, "/.well-known/openid-configuration") {
			n := atomic.AddInt64(&fetches, 1)
			v := ""
			if n > 1 {
				v = fmt.Sprintf("/v%d", n)
			}
			return 200, []byte(fmt.Sprintf(`{"issuer":%q,"authorization_endpoint":%q,"token_endpoint":%q,"jwks_uri":%q,"end_session_endpoint":%q}`,
				base, base+v+"/auth", base+v+"/token", base+"/jwks", base+v+"/logout"))
		}
		return inner(r, body)
	}
}

// RichMetadata is the optional provider metadata of the "rich" discovery document: every member is legal, the values
// are the less common ones (a provider that advertises only what it likes least). The service is configured to use
// the code flow with PKCE S256 and its own client authentication whatever a provider advertises.
const RichMetadata = `,"response_types_supported":["code","code id_token"],"response_modes_supported":["query","fragment","form_post"],` +
	`"grant_types_supported":["authorization_code","refresh_token","urn:ietf:params:oauth:grant-type:device_code"],"subject_types_supported":["pairwise"],` +
	`"id_token_signing_alg_values_supported":["ES256","RS256","none"],"token_endpoint_auth_methods_supported":["private_key_jwt","none"],` +
	`"code_challenge_methods_supported":["plain"],"scopes_supported":["openid","offline_access"],"claims_supported":["sub"],` +
	`"request_parameter_supported":true,"request_uri_parameter_supported":true,"require_request_uri_registration":true,` +
	`"require_pushed_authorization_requests":false,"backchannel_logout_supported":true,"frontchannel_logout_supported":true,` +
	`"authorization_response_iss_parameter_supported":true,"tls_client_certificate_bound_access_tokens":true,` +
	`"userinfo_endpoint":"http://disc2.idp.test/userinfo","revocation_endpoint":"http://disc2.idp.test/revoke","introspection_endpoint":"http://disc2.idp.test/introspect",` +
	`"registration_endpoint":"http://disc2.idp.test/register","pushed_authorization_request_endpoint":"http://disc2.idp.test/par",` +
	`"device_authorization_endpoint":"http://disc2.idp.test/device","check_session_iframe":"http://disc2.idp.test/check","service_documentation":"http://disc2.idp.test/doc"`

// OddDiscoveryDocs is the deviation-bounded grammar of discovery documents: the honest document with ONE member
// replaced by an odd value (endpoints the URL parser rejects, relative, empty, with query/fragment, non-strings), and
// a few documents that are odd as a whole. Index k is served by host disc-odd-<k>.idp.test.
func OddDiscoveryDocs() []struct{ Name, Doc string } {
	var out []struct{ Name, Doc string }
	members := []string{"issuer", "authorization_endpoint", "token_endpoint", "jwks_uri", "end_session_endpoint"}
	values := []string{`"http://h.test/p%zz?x=1"`, `"http://h.test:https/authorize?x=1"`, "\"http://h.test/a\\u007f?x=1\"", `""`, `"::"`, `"?"`, `"#"`, `"?x=1"`,
		`"http://h.test/auth?x=1#frag"`, `"/relative?x=1"`, `"HTTP://UPPER.TEST/Auth?"`, `"http://[::1]:99999/a?b"`, `"http://h.test/a b?c d"`, `"mailto:a@b?x"`,
		`null`, `7`, `true`, `[]`, `{}`, `["http://h.test/a"]`}
	for _, m := range members {
		for vi, v := range values {
			k := len(out)
			base := fmt.Sprintf("http://disc-odd-%d.idp.test", k)
			def := map[string]string{"issuer": `"` + base + `"`, "authorization_endpoint": `"` + base + `/auth"`, "token_endpoint": `"` + base + `/token"`,
				"jwks_uri": `"` + base + `/jwks"`, "end_session_endpoint": `"` + base + `/logout"`}
			def[m] = v
			doc := "{"
			for i, mm := range members {
				if i > 0 {
					doc += ","
				}
				doc += `"` + mm + `":` + def[mm]
			}
			doc += "}"
			out = append(out, struct{ Name, Doc string }{fmt.Sprintf("%s=#%d", m, vi), doc})
		}
	}
	for _, whole := range []string{`null`, `[]`, `{`, ``, `"x"`, `{}`, `{"authorization_endpoint":"http://h.test/a"}`, `{"issuer":{"a":[1,{"b":null}]}}`} {
		out = append(out, struct{ Name, Doc string }{"whole=" + whole, whole})
	}
	return out
}

// CannedDoc serves a fixed discovery document, the harness keys at /jwks, and refuses token requests.
func CannedDoc(doc string) Responder {
	jwks := []byte(JWKS(KeyEC, KeyRSA))
	return func(r *http.Request, body []byte) (int, []byte) {
		switch {
		case strings.HasSuffix(r.URL.Path, "/.well-known/openid-configuration"):
			return 200, []byte(doc)
		case strings.HasSuffix(r.URL.Path, "/jwks"):
			return 200, jwks
		case strings.HasSuffix(r.URL.Path, "/token"):
			return 400, []byte(`{"error":"invalid_grant"}`)
		}
		return 404, []byte(`{}`)
	}
}

func CannedIdPDoc(base string, tokenAnswers map[string][]byte, rich bool) Responder {
	extra := ""
	if rich {
		extra = RichMetadata
	}
	disc := []byte(fmt.Sprintf(`{"issuer":%q,"authorization_endpoint":%q,"token_endpoint":%q,"jwks_uri":%q,"end_session_endpoint":%q%s}`,
		base, base+"/auth", base+"/token", base+"/jwks", base+"/logout", extra))
	jwks := []byte(JWKS(KeyEC, KeyRSA))
	return func(r *http.Request, body []byte) (int, []byte) {
		switch {
		case strings.HasSuffix(r.URL.Path, "/.well-known/openid-configuration"):
			return 200, disc
		case strings.HasSuffix(r.URL.Path, "/jwks"):
			return 200, jwks
		case strings.HasSuffix(r.URL.Path, "/token"):
			form := string(body)
			for key, ans := range tokenAnswers {
				if strings.Contains(form, "code="+key) || strings.Contains(form, "refresh_token="+key) {
					return 200, ans
				}
			}
			return 400, []byte(`{"error":"invalid_grant"}`)
		}
		return 404, []byte(`{}`)
	}
}

package world

import (
	"encoding/json"
	"strings"
)

// EvilKinds is the adversarial ID-token grammar of C02. Every element is unambiguously invalid: no reading of
// "valid signature under the configured key set + audience contains the client id + (login) nonce of the
// session" accepts it.
var EvilKinds = []string{
	"alg-none", "alg-None", "alg-NONE", "alg-none-with-sig",
	"hs256-pub-pem", "hs384-pub-pem", "hs512-pub-pem", "hs256-pub-der", "hs256-pub-jwk", "hs256-rsa-pub-pem", "hs256-rsa-pub-der", "hs256-empty-secret",
	"foreign-same-kid", "foreign-other-kid", "foreign-no-kid", "foreign-embedded-jwk", "foreign-jku", "foreign-x5c", "foreign-rsa-same-kid",
	"payload-swapped", "sig-bitflip", "sig-stripped", "sig-empty-segment", "two-segments", "four-segments", "five-segments", "not-base64",
	"aud-absent", "aud-other", "aud-prefix", "aud-suffix", "aud-empty-array", "aud-other-array",
	"nonce-absent", "nonce-other", "nonce-empty", "nonce-case", "replay-other-sessions-token",
	// a matching "authorized party" does not make up for an audience that does not contain the client
	"aud-other-azp-client", "aud-absent-azp-client", "aud-suffix-azp-client", "aud-other-array-azp-client",
	// other serialisations of a JWT that an unverified parse accepts: a bare JSON claims object (no signature at all)
	// and JSON-serialised JWS objects carrying a foreign signature or none
	"json-claims-object", "json-jws-flattened-foreign", "json-jws-general-foreign", "json-jws-general-no-signatures",
}

// EvilLoginOnly are grammar elements that are invalid at login only (the statement requires the nonce "at login").
var EvilLoginOnly = map[string]bool{"nonce-absent": true, "nonce-other": true, "nonce-empty": true, "nonce-case": true, "replay-other-sessions-token": true}

func cloneClaims(c map[string]any) map[string]any {
	o := map[string]any{}
	for k, v := range c {
		o[k] = v
	}
	return o
}

func jwkOf(k *Key) map[string]any {
	var m map[string]any
	var doc struct {
		Keys []map[string]any `json:"keys"`
	}
	_ = json.Unmarshal([]byte(JWKS(k)), &doc)
	m = doc.Keys[0]
	return m
}

func rawToken(header map[string]any, claims map[string]any, sig string) string {
	hb, _ := json.Marshal(header)
	cb, _ := json.Marshal(claims)
	return b64.EncodeToString(hb) + "." + b64.EncodeToString(cb) + "." + sig
}

func flipCase(s string) string {
	b := []byte(s)
	for i, c := range b {
		if c >= 'a' && c <= 'z' {
			b[i] = c - 32
			return string(b)
		}
		if c >= 'A' && c <= 'Z' {
			b[i] = c + 32
			return string(b)
		}
	}
	return s + "X"
}

func (p *SimIdP) evilToken(kind string, key *Key, claims map[string]any, login *Login) string {
	c := cloneClaims(claims)
	good := func() string { return Mint(key, nil, c) }
	switch kind {
	case "alg-none":
		return rawToken(map[string]any{"alg": "none", "typ": "JWT"}, c, "")
	case "alg-None":
		return rawToken(map[string]any{"alg": "None", "typ": "JWT"}, c, "")
	case "alg-NONE":
		return rawToken(map[string]any{"alg": "NONE", "typ": "JWT", "kid": key.Kid}, c, "")
	case "alg-none-with-sig":
		g := good()
		return rawToken(map[string]any{"alg": "none", "typ": "JWT", "kid": key.Kid}, c, g[strings.LastIndex(g, ".")+1:])
	case "hs256-pub-pem":
		return HMACToken("HS256", PublicPEM(key), key.Kid, c)
	case "hs384-pub-pem":
		return HMACToken("HS384", PublicPEM(key), key.Kid, c)
	case "hs512-pub-pem":
		return HMACToken("HS512", PublicPEM(key), key.Kid, c)
	case "hs256-pub-der":
		return HMACToken("HS256", PublicDER(key), key.Kid, c)
	case "hs256-pub-jwk":
		jb, _ := json.Marshal(jwkOf(key))
		return HMACToken("HS256", jb, key.Kid, c)
	case "hs256-rsa-pub-pem":
		return HMACToken("HS256", PublicPEM(p.RSAKey), p.RSAKey.Kid, c)
	case "hs256-rsa-pub-der":
		return HMACToken("HS256", PublicDER(p.RSAKey), p.RSAKey.Kid, c)
	case "hs256-empty-secret":
		return HMACToken("HS256", []byte{}, key.Kid, c)
	case "foreign-same-kid":
		return Mint(KeyEvilEC, nil, c)
	case "foreign-rsa-same-kid":
		return Mint(KeyEvilRSA, nil, c)
	case "foreign-other-kid":
		return Mint(KeyEvilEC, map[string]any{"kid": "evil"}, c)
	case "foreign-no-kid":
		return Mint(KeyEvilEC, map[string]any{"kid": nil}, c)
	case "foreign-embedded-jwk":
		return Mint(KeyEvilEC, map[string]any{"jwk": jwkOf(KeyEvilEC)}, c)
	case "foreign-jku":
		return Mint(KeyEvilEC, map[string]any{"jku": "https://evil.test/jwks.json"}, c)
	case "foreign-x5c":
		return Mint(KeyEvilEC, map[string]any{"x5c": []any{b64.EncodeToString(PublicDER(KeyEvilEC))}}, c)
	case "payload-swapped":
		g := good()
		parts := strings.Split(g, ".")
		c2 := cloneClaims(c)
		c2["sub"] = "admin"
		cb, _ := json.Marshal(c2)
		return parts[0] + "." + b64.EncodeToString(cb) + "." + parts[2]
	case "sig-bitflip":
		g := good()
		i := strings.LastIndex(g, ".") + 3
		b := []byte(g)
		if b[i] == 'A' {
			b[i] = 'B'
		} else {
			b[i] = 'A'
		}
		return string(b)
	case "sig-stripped", "sig-empty-segment":
		g := good()
		return g[:strings.LastIndex(g, ".")+1]
	case "two-segments":
		g := good()
		return g[:strings.LastIndex(g, ".")]
	case "four-segments":
		return good() + ".AAAA"
	case "five-segments":
		return good() + ".AAAA.BBBB"
	case "not-base64":
		return "!!!.???.***"
	case "aud-absent":
		delete(c, "aud")
		return good()
	case "aud-other":
		c["aud"] = "other-client"
		return good()
	case "aud-prefix":
		c["aud"] = p.ClientID[:len(p.ClientID)-1]
		return good()
	case "aud-suffix":
		c["aud"] = p.ClientID + "x"
		return good()
	case "aud-other-azp-client":
		c["aud"], c["azp"] = "other-client", p.ClientID
		return good()
	case "aud-absent-azp-client":
		delete(c, "aud")
		c["azp"] = p.ClientID
		return good()
	case "aud-suffix-azp-client":
		c["aud"], c["azp"] = p.ClientID+"x", p.ClientID
		return good()
	case "aud-other-array-azp-client":
		c["aud"], c["azp"] = []any{"other-client", p.ClientID + "x"}, p.ClientID
		return good()
	case "aud-empty-array":
		c["aud"] = []any{}
		return good()
	case "aud-other-array":
		c["aud"] = []any{"other-client", p.ClientID + "x"}
		return good()
	case "nonce-absent":
		delete(c, "nonce")
		return good()
	case "nonce-other":
		if p.OtherNonce != nil {
			c["nonce"] = p.OtherNonce()
		} else {
			c["nonce"] = "someone-elses-nonce"
		}
		return good()
	case "replay-other-sessions-token":
		// the identical, honestly issued and still valid ID token of ANOTHER login (same client, other nonce)
		best := ""
		bestSeq := -1
		for tok, is := range p.Issued {
			if is.Kind == "id" && is.Honest && is.Login != login.ID && is.Seq > bestSeq {
				best, bestSeq = tok, is.Seq
			}
		}
		if best != "" {
			return best
		}
		c["nonce"] = "nobody-elses-nonce-yet"
		return good()
	case "nonce-empty":
		c["nonce"] = ""
		return good()
	case "json-claims-object":
		b, _ := json.Marshal(c)
		return string(b)
	case "json-jws-flattened-foreign", "json-jws-general-foreign", "json-jws-general-no-signatures":
		seg := strings.Split(Mint(KeyEvilEC, nil, c), ".")
		var v map[string]any
		switch kind {
		case "json-jws-flattened-foreign":
			v = map[string]any{"protected": seg[0], "payload": seg[1], "signature": seg[2]}
		case "json-jws-general-foreign":
			v = map[string]any{"payload": seg[1], "signatures": []any{map[string]any{"protected": seg[0], "signature": seg[2]}}}
		default:
			v = map[string]any{"payload": seg[1], "signatures": []any{}}
		}
		b, _ := json.Marshal(v)
		return string(b)
	case "nonce-case":
		c["nonce"] = flipCase(login.Nonce)
		return good()
	}
	panic("unknown evil kind " + kind)
}

package world

import (
	"crypto/sha256"
	"encoding/base64"
	"encoding/json"
	"errors"
	"fmt"
	"io"
	"net/http"
	"net/url"
	"strings"
	"sync"
	"time"
)

// Answer describes how the simulated provider answers the token requests of one check.
type Answer struct {
	Name         string `json:"name"`
	Status       int    `json:"status,omitempty"`    // 0 = 200
	Transport    string `json:"transport,omitempty"` // "before": error before the provider sees the request; "after": the provider processed it, the answer is lost
	RawBody      string `json:"raw_body,omitempty"`  // verbatim body (with Status)
	UseRaw       bool   `json:"use_raw,omitempty"`
	NoRefresh    bool   `json:"no_refresh,omitempty"`    // omit refresh_token
	NoExpiresIn  bool   `json:"no_expires_in,omitempty"` // omit expires_in
	NoIDToken    bool   `json:"no_id_token,omitempty"`   // omit id_token (refresh answers may)
	NoAccess     bool   `json:"no_access,omitempty"`     // omit access_token
	KeepRT       bool   `json:"keep_rt,omitempty"`       // refresh: do not rotate, omit refresh_token
	AudArray     bool   `json:"aud_array,omitempty"`     // aud as array [client, other]
	TokenType    string `json:"token_type,omitempty"`    // default Bearer
	Extra        bool   `json:"extra,omitempty"`         // extra members in the answer
	NoNonce      bool   `json:"no_nonce,omitempty"`      // refresh: id token without nonce claim
	Evil         string `json:"evil,omitempty"`          // adversarial id_token grammar element
	RSA          bool   `json:"rsa,omitempty"`           // sign with the RSA key of the JWKS
	ExpiresInRaw string `json:"expires_in_raw,omitempty"` // verbatim JSON for expires_in
	AccessLife   int    `json:"access_life,omitempty"`    // the access token lives this many seconds (expires_in says so); the ID token keeps the provider's lifetime
	Azp          bool   `json:"azp,omitempty"`            // honest ID token that also carries azp = client id
	RotateOnce   bool   `json:"rotate_once,omitempty"`    // refresh: rotate the refresh token the first time, omit the member afterwards
	Groups       int    `json:"groups,omitempty"`         // honest ID token with a groups claim of this many entries (600 entries = a token answer of about 20 KiB)
}

var Honest = Answer{Name: "honest"}

type AuthzReq struct {
	ClientID, RedirectURI, Scope, State, Nonce, Challenge, Method, ResponseType string
	RawQuery                                                                     string
}

type Code struct {
	Value    string
	Req      AuthzReq
	Redeemed bool
	Login    int
}

// Login is one interactive login = one refresh-token family.
type Login struct {
	ID        int
	Nonce     string
	Sub       string
	CurrentRT string
	OldRTs    []string
	Code      string
}

type TokenReq struct {
	Step      int
	Grant     string
	Form      url.Values
	Header    http.Header
	URL       string
	Result    string // "ok" or reason of rejection
	Login     int
	Answered  int    // http status answered (0 = transport error)
	AnswerTag string // name of the Answer used
	IDToken   string
	Access    string
	Refresh   string
	BasicOK   bool
	FormOK    bool
	HonestOK  bool // answered 200 with an honest, valid body
	Thread    int  // schedx: thread that sent the request (-1 outside the scheduler)
	SchedStep int
}

type Issued struct {
	Kind   string // id | access | refresh
	Login  int
	Exp    time.Time
	Honest bool
	Seq    int
	// Announced (access tokens): the answer that carried the token also carried a well-formed expires_in, so the
	// service knows when it expires
	Announced bool
}

// SimIdP is the deterministic simulated identity provider with a ledger.
type SimIdP struct {
	Now         func() time.Time
	Issuer      string
	ClientID    string
	Secret      func() string // current expected secret
	RedirectURI string
	TokenURL    string
	Key         *Key
	RSAKey      *Key
	TokenLife   int // seconds
	OtherNonce  func() string

	Codes     []*Code
	Logins    []*Login
	AuthzReqs []AuthzReq
	TokenReqs []*TokenReq
	Issued    map[string]*Issued
	Mode      Answer
	seq       int
	mu            sync.Mutex // only for the HTTP front (server-level worlds)
	DiscoveryHits int
	// AfterProcess runs once, right after the provider has processed (committed) the next token request and before
	// the answer travels back
	AfterProcess func()
	JWKSHits      int
	// Tagger returns the calling thread and scheduler step (schedx).
	Tagger func() (int, int)
	// Hook is called at the start of RoundTrip (scheduling point / fault injection); an error is a transport error.
	Hook func(req *http.Request) error
}

func NewSimIdP(now func() time.Time, clientID string, secret func() string, redirectURI string) *SimIdP {
	initKeys()
	return &SimIdP{Now: now, Issuer: "https://idp.test", ClientID: clientID, Secret: secret, RedirectURI: redirectURI,
		TokenURL: "https://idp.test/token", Key: KeyEC, RSAKey: KeyRSA, TokenLife: 60, Issued: map[string]*Issued{}, Mode: Honest}
}

func (p *SimIdP) next() int { p.seq++; return p.seq }

// Authorize is the authorization endpoint as driven by the harness browser: it records the request, mints a
// code bound to it and returns the redirect back to the client (redirect_uri?code=..&state=..).
func (p *SimIdP) Authorize(location string) (redirect string, code *Code, err error) {
	u, err := url.Parse(location)
	if err != nil {
		return "", nil, err
	}
	// lenient form parsing (a provider ignores parameters it cannot decode; the endpoint's own query may contain
	// ';' or a bare '%')
	q := url.Values{}
	for _, kv := range strings.Split(u.RawQuery, "&") {
		k, v, _ := strings.Cut(kv, "=")
		dk, err1 := url.QueryUnescape(k)
		dv, err2 := url.QueryUnescape(v)
		if err1 == nil && err2 == nil {
			q.Add(dk, dv)
		}
	}
	ar := AuthzReq{ClientID: q.Get("client_id"), RedirectURI: q.Get("redirect_uri"), Scope: q.Get("scope"), State: q.Get("state"),
		Nonce: q.Get("nonce"), Challenge: q.Get("code_challenge"), Method: q.Get("code_challenge_method"),
		ResponseType: q.Get("response_type"), RawQuery: u.RawQuery}
	p.AuthzReqs = append(p.AuthzReqs, ar)
	if ar.ClientID != p.ClientID || ar.RedirectURI != p.RedirectURI || ar.ResponseType != "code" || !strings.Contains(" "+ar.Scope+" ", " openid ") {
		return "", nil, fmt.Errorf("authorization request rejected: %+v", ar)
	}
	c := &Code{Value: fmt.Sprintf("code%04d", p.next()), Req: ar, Login: -1}
	p.Codes = append(p.Codes, c)
	sep := "?"
	if strings.Contains(ar.RedirectURI, "?") {
		sep = "&"
	}
	return ar.RedirectURI + sep + "code=" + url.QueryEscape(c.Value) + "&state=" + url.QueryEscape(ar.State), c, nil
}

// S256 is the PKCE S256 transformation.
func S256(v string) string { return s256(v) }

func s256(v string) string {
	d := sha256.Sum256([]byte(v))
	return base64.RawURLEncoding.EncodeToString(d[:])
}

// RoundTrip implements http.RoundTripper for the token endpoint (synchronous, on the caller's goroutine).
func (p *SimIdP) RoundTrip(req *http.Request) (*http.Response, error) {
	if p.Hook != nil {
		if err := p.Hook(req); err != nil {
			return nil, err
		}
	}
	mode := p.Mode
	if mode.Transport == "before" {
		return nil, errors.New("simidp: connection refused (injected)")
	}
	var body []byte
	if req.Body != nil {
		body, _ = io.ReadAll(req.Body)
		_ = req.Body.Close()
	}
	form, _ := url.ParseQuery(string(body))
	tr := &TokenReq{Step: len(p.TokenReqs), Grant: form.Get("grant_type"), Form: form, Header: req.Header.Clone(), URL: req.URL.String(),
		Login: -1, AnswerTag: mode.Name, Thread: -1}
	if p.Tagger != nil {
		tr.Thread, tr.SchedStep = p.Tagger()
	}
	p.TokenReqs = append(p.TokenReqs, tr)

	status, respBody := p.process(tr, mode)
	if p.AfterProcess != nil {
		p.AfterProcess()
		p.AfterProcess = nil
	}
	// as net/http would: a request bound to a context that has been cancelled meanwhile fails, the answer is lost
	if err := req.Context().Err(); err != nil {
		tr.Answered = 0
		tr.HonestOK = false
		return nil, err
	}
	if mode.Transport == "after" {
		tr.Answered = 0
		tr.HonestOK = false
		return nil, errors.New("simidp: connection reset while reading answer (injected)")
	}
	tr.Answered = status
	return &http.Response{
		Status: fmt.Sprintf("%d %s", status, http.StatusText(status)), StatusCode: status, Proto: "HTTP/1.1", ProtoMajor: 1, ProtoMinor: 1,
		Header:  http.Header{"Content-Type": []string{"application/json"}},
		Body:    io.NopCloser(strings.NewReader(respBody)),
		Request: req, ContentLength: int64(len(respBody)),
	}, nil
}

func oauthErr(code string) string { return `{"error":"` + code + `"}` }

func (p *SimIdP) process(tr *TokenReq, mode Answer) (int, string) {
	// client authentication: Basic header or form credentials, either must carry the right pair
	secret := p.Secret()
	wantBasic := "Basic " + base64.StdEncoding.EncodeToString([]byte(p.ClientID+":"+secret))
	auth := tr.Header.Get("Authorization")
	if auth == "" {
		auth = tr.Header.Get("authorization")
		if auth == "" {
			for k, v := range tr.Header {
				if strings.EqualFold(k, "authorization") && len(v) > 0 {
					auth = v[0]
				}
			}
		}
	}
	tr.BasicOK = auth == wantBasic
	tr.FormOK = tr.Form.Get("client_id") == p.ClientID && tr.Form.Get("client_secret") == secret
	if !tr.BasicOK && !tr.FormOK {
		tr.Result = "invalid_client"
		return 401, oauthErr("invalid_client")
	}
	var login *Login
	switch tr.Grant {
	case "authorization_code":
		var code *Code
		for _, c := range p.Codes {
			if c.Value == tr.Form.Get("code") {
				code = c
			}
		}
		switch {
		case code == nil:
			tr.Result = "invalid_grant: unknown code"
		case code.Redeemed:
			tr.Result = "invalid_grant: code already redeemed"
		case tr.Form.Get("redirect_uri") != code.Req.RedirectURI:
			tr.Result = "invalid_grant: redirect_uri mismatch"
		case code.Req.Method != "S256" || s256(tr.Form.Get("code_verifier")) != code.Req.Challenge:
			tr.Result = "invalid_grant: PKCE verification failed"
		}
		if tr.Result != "" {
			return 400, oauthErr("invalid_grant")
		}
		if mode.Status != 0 && mode.Status != 200 {
			tr.Result = "ok-but-answered-error"
			return mode.Status, oauthErr("server_error")
		}
		code.Redeemed = true
		login = &Login{ID: len(p.Logins), Nonce: code.Req.Nonce, Sub: fmt.Sprintf("user%d", len(p.Logins)), Code: code.Value}
		p.Logins = append(p.Logins, login)
		code.Login = login.ID
	case "refresh_token":
		rt := tr.Form.Get("refresh_token")
		for _, l := range p.Logins {
			if l.CurrentRT == rt && rt != "" {
				login = l
			}
			for _, o := range l.OldRTs {
				if o == rt {
					tr.Result = "invalid_grant: superseded refresh token"
					tr.Login = l.ID
				}
			}
		}
		if login == nil {
			if tr.Result == "" {
				tr.Result = "invalid_grant: unknown refresh token"
			}
			return 400, oauthErr("invalid_grant")
		}
		if mode.Status != 0 && mode.Status != 200 {
			tr.Result = "ok-but-answered-error"
			return mode.Status, oauthErr("server_error")
		}
	default:
		tr.Result = "unsupported_grant_type"
		return 400, oauthErr("unsupported_grant_type")
	}
	tr.Result = "ok"
	tr.Login = login.ID
	if mode.UseRaw {
		st := mode.Status
		if st == 0 {
			st = 200
		}
		return st, mode.RawBody
	}

	now := p.Now()
	exp := now.Add(time.Duration(p.TokenLife) * time.Second)
	resp := map[string]any{}
	honest := mode.Evil == ""
	tt := mode.TokenType
	if tt == "" {
		tt = "Bearer"
	}
	resp["token_type"] = tt
	if !strings.EqualFold(tt, "Bearer") {
		honest = false
	}
	isRefresh := tr.Grant == "refresh_token"
	if !(mode.NoIDToken && isRefresh) {
		claims := map[string]any{"iss": p.Issuer, "sub": login.Sub, "exp": exp.Unix(), "iat": now.Unix(), "jti": fmt.Sprintf("id%04d", p.next())}
		if mode.AudArray {
			claims["aud"] = []any{"other-client", p.ClientID}
		} else {
			claims["aud"] = p.ClientID
		}
		if !(isRefresh && mode.NoNonce) {
			claims["nonce"] = login.Nonce
		}
		if mode.Azp {
			claims["azp"] = p.ClientID
		}
		if mode.Groups > 0 {
			gs := make([]any, mode.Groups)
			for i := range gs {
				gs[i] = fmt.Sprintf("group-%04d-of-the-directory", i)
			}
			claims["groups"] = gs
		}
		key := p.Key
		if mode.RSA {
			key = p.RSAKey
		}
		var tok string
		if mode.Evil != "" {
			tok = p.evilToken(mode.Evil, key, claims, login)
		} else {
			tok = Mint(key, nil, claims)
		}
		resp["id_token"] = tok
		tr.IDToken = tok
		if _, seen := p.Issued[tok]; !seen {
			p.Issued[tok] = &Issued{Kind: "id", Login: login.ID, Exp: exp, Honest: mode.Evil == "", Seq: p.seq}
		}
	}
	if !mode.NoAccess {
		at := fmt.Sprintf("AT-%d-%04d-sekret", login.ID, p.next())
		resp["access_token"] = at
		tr.Access = at
		aexp := exp
		if mode.AccessLife > 0 {
			aexp = now.Add(time.Duration(mode.AccessLife) * time.Second)
		}
		p.Issued[at] = &Issued{Kind: "access", Login: login.ID, Exp: aexp, Honest: true, Seq: p.seq, Announced: !mode.NoExpiresIn && mode.ExpiresInRaw == ""}
	}
	if isRefresh {
		if !mode.KeepRT && !mode.NoRefresh && !(mode.RotateOnce && len(login.OldRTs) > 0) {
			nrt := fmt.Sprintf("RT-%d-%04d-sekret", login.ID, p.next())
			login.OldRTs = append(login.OldRTs, login.CurrentRT)
			login.CurrentRT = nrt
			resp["refresh_token"] = nrt
			tr.Refresh = nrt
			p.Issued[nrt] = &Issued{Kind: "refresh", Login: login.ID, Honest: true, Seq: p.seq}
		}
	} else if !mode.NoRefresh {
		nrt := fmt.Sprintf("RT-%d-%04d-sekret", login.ID, p.next())
		login.CurrentRT = nrt
		resp["refresh_token"] = nrt
		tr.Refresh = nrt
		p.Issued[nrt] = &Issued{Kind: "refresh", Login: login.ID, Honest: true, Seq: p.seq}
	}
	if mode.ExpiresInRaw != "" {
		resp["expires_in"] = json.RawMessage(mode.ExpiresInRaw)
		honest = false
	} else if !mode.NoExpiresIn {
		resp["expires_in"] = p.TokenLife
		if mode.AccessLife > 0 {
			resp["expires_in"] = mode.AccessLife
		}
	}
	if mode.Extra {
		resp["scope"] = "openid email"
		resp["not-before-policy"] = 0
		resp["session_state"] = "xyz"
		resp["nested"] = map[string]any{"a": []any{1, "b", nil}}
	}
	tr.HonestOK = honest
	b, _ := json.Marshal(resp)
	return 200, string(b)
}

// CurrentRTOf returns the login a refresh token belongs to and whether it is that login's current one.
func (p *SimIdP) CurrentRTOf(rt string) (login int, current bool) {
	for _, l := range p.Logins {
		if l.CurrentRT == rt {
			return l.ID, true
		}
		for _, o := range l.OldRTs {
			if o == rt {
				return l.ID, false
			}
		}
	}
	return -1, false
}

// Summary is the part of the provider's state that can influence the future (for canonical states).
func (p *SimIdP) Summary() string {
	var sb strings.Builder
	for _, c := range p.Codes {
		if !c.Redeemed {
			fmt.Fprintf(&sb, "code{%s st=%s n=%s ch=%s}", c.Value, c.Req.State, c.Req.Nonce, c.Req.Challenge)
		}
	}
	for _, l := range p.Logins {
		fmt.Fprintf(&sb, "login{%d rt=%s n=%s}", l.ID, l.CurrentRT, l.Nonce)
	}
	return sb.String()
}

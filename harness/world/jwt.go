// Package world is the closed world every explorer drives: the real handler/store/config plus a harness-owned
// environment (virtual clock, simulated identity provider with a ledger, spy store, spy key source).
package world

import (
	"crypto"
	"crypto/ecdsa"
	"crypto/elliptic"
	"crypto/hmac"
	"crypto/rand"
	"crypto/rsa"
	"crypto/sha256"
	"crypto/sha512"
	"crypto/x509"
	"encoding/base64"
	"encoding/json"
	"encoding/pem"
	"errors"
	"fmt"
	"hash"
	"math/big"
	"strings"
	"sync"
)

var b64 = base64.RawURLEncoding

// Key is a signing key of the simulated provider (or of an attacker).
type Key struct {
	Kid string
	EC  *ecdsa.PrivateKey
	RSA *rsa.PrivateKey
}

var (
	keyOnce sync.Once
	// KeyEC and KeyRSA are in the configured JWKS; KeyEvilEC/KeyEvilRSA are foreign keys.
	KeyEC, KeyRSA, KeyEvilEC, KeyEvilRSA *Key
	// KeyEC2 is a second realm's key (C18).
	KeyEC2 *Key
)

// InitKeys generates the process-wide key material once.
func InitKeys() { initKeys() }

func initKeys() {
	keyOnce.Do(func() {
		mk := func(kid string) *Key {
			k, err := ecdsa.GenerateKey(elliptic.P256(), rand.Reader)
			if err != nil {
				panic(err)
			}
			return &Key{Kid: kid, EC: k}
		}
		KeyEC = mk("ec1")
		KeyEvilEC = mk("ec1") // same kid, foreign key
		KeyEC2 = mk("ec2")
		r, err := rsa.GenerateKey(rand.Reader, 2048)
		if err != nil {
			panic(err)
		}
		KeyRSA = &Key{Kid: "rsa1", RSA: r}
		r2, err := rsa.GenerateKey(rand.Reader, 2048)
		if err != nil {
			panic(err)
		}
		KeyEvilRSA = &Key{Kid: "rsa1", RSA: r2}
	})
}

// JWKS returns the JWKS document for keys; the EC key carries "alg", the RSA key does not (as some providers do).
func JWKS(keys ...*Key) string {
	var ks []map[string]any
	for _, k := range keys {
		if k.EC != nil {
			ks = append(ks, map[string]any{"kty": "EC", "crv": "P-256", "kid": k.Kid, "alg": "ES256", "use": "sig",
				"x": b64.EncodeToString(pad32(k.EC.X)), "y": b64.EncodeToString(pad32(k.EC.Y))})
		} else {
			ks = append(ks, map[string]any{"kty": "RSA", "kid": k.Kid, "use": "sig",
				"n": b64.EncodeToString(k.RSA.N.Bytes()), "e": b64.EncodeToString(big.NewInt(int64(k.RSA.E)).Bytes())})
		}
	}
	b, _ := json.Marshal(map[string]any{"keys": ks})
	return string(b)
}

func pad32(x *big.Int) []byte {
	b := x.Bytes()
	if len(b) >= 32 {
		return b
	}
	return append(make([]byte, 32-len(b)), b...)
}

var (
	mintMu    sync.Mutex
	mintCache = map[string]string{}
)

// Mint signs header.payload with k (memoised: the same claims under the same key always give the same token
// string, which makes replays byte-identical although ECDSA signatures are randomised).
func Mint(k *Key, header map[string]any, claims map[string]any) string {
	h := map[string]any{"typ": "JWT"}
	if k.EC != nil {
		h["alg"] = "ES256"
	} else {
		h["alg"] = "RS256"
	}
	h["kid"] = k.Kid
	for kk, v := range header {
		if v == nil {
			delete(h, kk)
		} else {
			h[kk] = v
		}
	}
	hb, _ := json.Marshal(h)
	cb, _ := json.Marshal(claims)
	signing := b64.EncodeToString(hb) + "." + b64.EncodeToString(cb)
	cacheKey := fmt.Sprintf("%p|%s", k, signing)
	mintMu.Lock()
	if t, ok := mintCache[cacheKey]; ok {
		mintMu.Unlock()
		return t
	}
	mintMu.Unlock()
	sig := SignRaw(k, signing)
	t := signing + "." + b64.EncodeToString(sig)
	mintMu.Lock()
	mintCache[cacheKey] = t
	mintMu.Unlock()
	return t
}

// SignRaw signs the signing input with the key's natural algorithm (ES256 / RS256).
func SignRaw(k *Key, signing string) []byte {
	d := sha256.Sum256([]byte(signing))
	if k.EC != nil {
		r, s, err := ecdsa.Sign(rand.Reader, k.EC, d[:])
		if err != nil {
			panic(err)
		}
		return append(pad32(r), pad32(s)...)
	}
	sig, err := rsa.SignPKCS1v15(rand.Reader, k.RSA, crypto.SHA256, d[:])
	if err != nil {
		panic(err)
	}
	return sig
}

// HMACToken builds header.payload signed with HMAC under secret (algorithm-confusion attacks).
func HMACToken(alg string, secret []byte, kid string, claims map[string]any) string {
	h := map[string]any{"typ": "JWT", "alg": alg}
	if kid != "" {
		h["kid"] = kid
	}
	hb, _ := json.Marshal(h)
	cb, _ := json.Marshal(claims)
	signing := b64.EncodeToString(hb) + "." + b64.EncodeToString(cb)
	var hf func() hash.Hash
	switch alg {
	case "HS384":
		hf = sha512.New384
	case "HS512":
		hf = sha512.New
	default:
		hf = sha256.New
	}
	m := hmac.New(hf, secret)
	m.Write([]byte(signing))
	return signing + "." + b64.EncodeToString(m.Sum(nil))
}

// PublicPEM / PublicDER / PublicJWK: encodings of a public key an attacker could use as an HMAC secret.
func PublicPEM(k *Key) []byte {
	return pem.EncodeToMemory(&pem.Block{Type: "PUBLIC KEY", Bytes: PublicDER(k)})
}

func PublicDER(k *Key) []byte {
	var pub any
	if k.EC != nil {
		pub = &k.EC.PublicKey
	} else {
		pub = &k.RSA.PublicKey
	}
	b, err := x509.MarshalPKIXPublicKey(pub)
	if err != nil {
		panic(err)
	}
	return b
}

// VerifyIndependent validates a compact JWS with the standard library only: exactly three segments, strict
// base64url, algorithm family fixed by the key type of the key chosen by kid, signature valid. It returns the
// claims. This is the reference validator ("valid signature under the configured key set").
func VerifyIndependent(token string, keys ...*Key) (map[string]any, error) {
	parts := strings.Split(token, ".")
	if len(parts) != 3 {
		return nil, errors.New("not three segments")
	}
	hb, err := b64.DecodeString(parts[0])
	if err != nil {
		return nil, errors.New("header not base64url")
	}
	cb, err := b64.DecodeString(parts[1])
	if err != nil {
		return nil, errors.New("payload not base64url")
	}
	sig, err := b64.DecodeString(parts[2])
	if err != nil {
		return nil, errors.New("signature not base64url")
	}
	var h map[string]any
	if err := json.Unmarshal(hb, &h); err != nil {
		return nil, errors.New("header not JSON")
	}
	var claims map[string]any
	if err := json.Unmarshal(cb, &claims); err != nil {
		return nil, errors.New("payload not JSON object")
	}
	alg, _ := h["alg"].(string)
	kid, _ := h["kid"].(string)
	d := sha256.Sum256([]byte(parts[0] + "." + parts[1]))
	for _, k := range keys {
		if k.Kid != kid {
			continue
		}
		if k.EC != nil {
			if alg != "ES256" || len(sig) != 64 {
				continue
			}
			r := new(big.Int).SetBytes(sig[:32])
			s := new(big.Int).SetBytes(sig[32:])
			if ecdsa.Verify(&k.EC.PublicKey, d[:], r, s) {
				return claims, nil
			}
		} else {
			if alg != "RS256" {
				continue
			}
			if rsa.VerifyPKCS1v15(&k.RSA.PublicKey, crypto.SHA256, d[:], sig) == nil {
				return claims, nil
			}
		}
	}
	return nil, errors.New("no configured key verifies the signature")
}

// ClaimsUnverified decodes the payload of a compact token without verifying (ledger bookkeeping only).
func ClaimsUnverified(token string) map[string]any {
	parts := strings.Split(token, ".")
	if len(parts) < 2 {
		return nil
	}
	cb, err := b64.DecodeString(parts[1])
	if err != nil {
		return nil
	}
	var claims map[string]any
	_ = json.Unmarshal(cb, &claims)
	return claims
}

// AudContains implements "an audience containing the client id" for string or array audiences.
func AudContains(claims map[string]any, clientID string) bool {
	switch a := claims["aud"].(type) {
	case string:
		return a == clientID
	case []any:
		for _, x := range a {
			if s, ok := x.(string); ok && s == clientID {
				return true
			}
		}
	}
	return false
}

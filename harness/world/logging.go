package world

import (
	"fmt"
	"io"
	"sync"

	"github.com/tetratelabs/run"
	"github.com/tetratelabs/telemetry"
	"github.com/tetratelabs/telemetry/function"

	configv1 "github.com/istio-ecosystem/authservice/config/gen/go/v1"
	"github.com/istio-ecosystem/authservice/internal"
)

var debugLogOnce sync.Once

// EnableDebugLogging sets up the repository's logging system the way cmd/main.go does, with log_level "all:debug"
// and a logger that formats every record and throws it away. Without it every logger of the repository is the no-op
// logger: nothing that only runs at debug level (the logging round tripper around provider requests, the formatting
// of logged values) would ever execute. Process-wide and irreversible: call it between passes, not inside one.
func EnableDebugLogging() {
	debugLogOnce.Do(func() {
		lg := function.NewLogger(func(level telemetry.Level, msg string, err error, values function.Values) {
			fmt.Fprint(io.Discard, level, msg, err)
			fmt.Fprint(io.Discard, values.FromContext...)
			fmt.Fprint(io.Discard, values.FromLogger...)
			fmt.Fprint(io.Discard, values.FromMethod...)
		})
		unit := internal.NewLogSystem(lg, &configv1.Config{LogLevel: "all:debug"})
		if pr, ok := unit.(run.PreRunner); ok {
			if err := pr.PreRun(); err != nil {
				panic(err)
			}
		}
	})
}

package world

import (
	"crypto/ecdsa"
	"crypto/elliptic"
	"crypto/rand"
	"crypto/tls"
	"crypto/x509"
	"crypto/x509/pkix"
	"encoding/pem"
	"math/big"
	"net"
	"sync"
	"time"
)

// CA is a private certificate authority with one server certificate for idp.test.
type CA struct {
	Name    string
	PEM     string
	Server  tls.Certificate
	caCert  *x509.Certificate
	caKey   *ecdsa.PrivateKey
}

var (
	pkiOnce       sync.Once
	CA1, CA2, CAX *CA
)

func mkCA(name string) *CA {
	key, _ := ecdsa.GenerateKey(elliptic.P256(), rand.Reader)
	tmpl := &x509.Certificate{SerialNumber: big.NewInt(1), Subject: pkix.Name{CommonName: name},
		NotBefore: time.Now().Add(-time.Hour), NotAfter: time.Now().Add(240 * time.Hour),
		IsCA: true, BasicConstraintsValid: true, KeyUsage: x509.KeyUsageCertSign | x509.KeyUsageDigitalSignature}
	der, err := x509.CreateCertificate(rand.Reader, tmpl, tmpl, &key.PublicKey, key)
	if err != nil {
		panic(err)
	}
	cert, _ := x509.ParseCertificate(der)
	ca := &CA{Name: name, caCert: cert, caKey: key, PEM: string(pem.EncodeToMemory(&pem.Block{Type: "CERTIFICATE", Bytes: der}))}
	skey, _ := ecdsa.GenerateKey(elliptic.P256(), rand.Reader)
	stmpl := &x509.Certificate{SerialNumber: big.NewInt(2), Subject: pkix.Name{CommonName: "idp.test"}, DNSNames: []string{"idp.test"},
		NotBefore: time.Now().Add(-time.Hour), NotAfter: time.Now().Add(240 * time.Hour),
		KeyUsage: x509.KeyUsageDigitalSignature, ExtKeyUsage: []x509.ExtKeyUsage{x509.ExtKeyUsageServerAuth}}
	sder, err := x509.CreateCertificate(rand.Reader, stmpl, cert, &skey.PublicKey, key)
	if err != nil {
		panic(err)
	}
	ca.Server = tls.Certificate{Certificate: [][]byte{sder}, PrivateKey: skey}
	return ca
}

// ServerCertFor mints a server certificate for host under ca.
func ServerCertFor(ca *CA, host string) tls.Certificate {
	skey, _ := ecdsa.GenerateKey(elliptic.P256(), rand.Reader)
	stmpl := &x509.Certificate{SerialNumber: big.NewInt(time.Now().UnixNano()), Subject: pkix.Name{CommonName: host}, DNSNames: []string{host},
		NotBefore: time.Now().Add(-time.Hour), NotAfter: time.Now().Add(240 * time.Hour),
		KeyUsage: x509.KeyUsageDigitalSignature, ExtKeyUsage: []x509.ExtKeyUsage{x509.ExtKeyUsageServerAuth}}
	sder, err := x509.CreateCertificate(rand.Reader, stmpl, ca.caCert, &skey.PublicKey, ca.caKey)
	if err != nil {
		panic(err)
	}
	return tls.Certificate{Certificate: [][]byte{sder}, PrivateKey: skey}
}

// InitPKI creates three private CAs (once per process).
func InitPKI() {
	pkiOnce.Do(func() {
		CA1, CA2, CAX = mkCA("verif CA one"), mkCA("verif CA two"), mkCA("verif CA unknown")
	})
}

var (
	srvCfgMu sync.Mutex
	srvCfgs  = map[*CA]*tls.Config{}
)

// serverConfig: one long-lived server configuration per CA, so that session tickets issued in one connection can be
// redeemed in a later one (as with a real provider).
func serverConfig(ca *CA) *tls.Config {
	srvCfgMu.Lock()
	defer srvCfgMu.Unlock()
	c := srvCfgs[ca]
	if c == nil {
		c = &tls.Config{Certificates: []tls.Certificate{ca.Server}}
		srvCfgs[ca] = c
	}
	return c
}

// Handshake performs a real TLS connection over loopback TCP between a client using clientCfg (as http.Transport
// would: a clone with the server name set; nil = defaults) and a long-lived server presenting ca's certificate: full
// handshake (or session resumption, if the client configuration caches sessions), one application byte from the
// server so that the client also processes the server's session tickets, then close. It returns nil when the client
// accepts the server.
func Handshake(clientCfg *tls.Config, ca *CA) error {
	ln, err := net.Listen("tcp", "127.0.0.1:0")
	if err != nil {
		panic(err)
	}
	defer ln.Close()
	done := make(chan struct{})
	go func() {
		defer close(done)
		s, err := ln.Accept()
		if err != nil {
			return
		}
		defer s.Close()
		_ = s.SetDeadline(time.Now().Add(10 * time.Second))
		srv := tls.Server(s, serverConfig(ca))
		if srv.Handshake() == nil {
			_, _ = srv.Write([]byte{'k'})
			// wait for the client to hang up
			var b [1]byte
			_, _ = srv.Read(b[:])
		}
	}()
	c, err := net.Dial("tcp", ln.Addr().String())
	if err != nil {
		panic(err)
	}
	var cfg *tls.Config
	if clientCfg != nil {
		cfg = clientCfg.Clone()
	} else {
		cfg = &tls.Config{}
	}
	cfg.ServerName = "idp.test"
	_ = c.SetDeadline(time.Now().Add(10 * time.Second))
	cl := tls.Client(c, cfg)
	herr := cl.Handshake()
	if herr == nil {
		var b [1]byte
		_, _ = cl.Read(b[:])
	}
	c.Close()
	<-done
	return herr
}

package world

import (
	"context"
	"errors"
	"runtime"
	"strings"
	"sync/atomic"
	"time"

	"github.com/lestrrat-go/jwx/v2/jwk"
	"github.com/redis/go-redis/v9"

	oidcv1 "github.com/istio-ecosystem/authservice/config/gen/go/v1/oidc"
	"github.com/istio-ecosystem/authservice/internal/oidc"
	"github.com/istio-ecosystem/authservice/zzverif/vsched"
)

// ErrInjected is the error returned by an injected environment failure.
var ErrInjected = errors.New("injected environment failure")

// Crash is the sentinel panic of an injected crash point.
type Crash struct{ At int }

// EnvCall is one call from the code under test into its environment during one check.
type EnvCall struct {
	Kind   string `json:"kind"` // store | idp | jwks
	Method string `json:"method"`
	SID    string `json:"sid,omitempty"`
	Fault  string `json:"fault,omitempty"` // before | after | crash
	Failed bool   `json:"failed,omitempty"`
	Caller string `json:"caller,omitempty"`
	Step   int    `json:"step,omitempty"` // scheduler step (schedx)
	Tokens *oidc.TokenResponse      `json:"-"`
	State  *oidc.AuthorizationState `json:"-"`
	// HadTokens / HadState: what the ghost store held under SID just before this call.
	HadTokens bool `json:"-"`
}

// Env is the per-check (per-thread under schedx) environment log and fault plan.
type Env struct {
	Calls  []EnvCall
	Faults map[int]string // call index within this check -> before | after | crash
	// Redis command level (Redis-backed worlds): commands issued during this check and the fault plan for them
	RedisCmds   []string
	RedisFaults map[int]string // command index within this check -> before | after
	RedisFailed bool
	Seq         int64 // identifies the check this log belongs to
	// Cancel cancels the context of the check (fault modes "cancel": before the environment call; "cancel-after": after
	// its effect, before the call returns) - the caller gave up: ext_authz time-out, client gone
	Cancel func()
}

var envSeq int64

func (e *Env) reset(f map[int]string) {
	e.Seq = atomic.AddInt64(&envSeq, 1)
	e.Calls = nil
	e.Faults = f
	e.RedisCmds = nil
	e.RedisFaults = nil
	e.RedisFailed = false
}

// redisHook injects failures at the level of single Redis commands (connection reset before / after the server
// executed the command) and records the commands of the current check.
type redisHook struct{ w *World }

func (h redisHook) DialHook(next redis.DialHook) redis.DialHook { return next }

func (h redisHook) ProcessPipelineHook(next redis.ProcessPipelineHook) redis.ProcessPipelineHook {
	return next
}

func (h redisHook) ProcessHook(next redis.ProcessHook) redis.ProcessHook {
	return func(ctx context.Context, cmd redis.Cmder) error {
		if h.w.redisQuiet {
			return next(ctx, cmd)
		}
		// under a scheduler every Redis command is a scheduling point of its own: a store method is a sequence of
		// commands and another check may run between two of them
		if s := vsched.Active(); s != nil {
			s.Point("redis:"+cmd.Name(), "")
		}
		env := h.w.CurEnv()
		idx := len(env.RedisCmds)
		env.RedisCmds = append(env.RedisCmds, cmd.Name())
		switch env.RedisFaults[idx] {
		case "before":
			env.RedisFailed = true
			cmd.SetErr(ErrInjected)
			return ErrInjected
		case "after":
			_ = next(ctx, cmd)
			env.RedisFailed = true
			cmd.SetErr(ErrInjected)
			return ErrInjected
		}
		return next(ctx, cmd)
	}
}

// AnyFailed reports whether any environment call of this check failed.
func (e *Env) AnyFailed() bool {
	for _, c := range e.Calls {
		if c.Failed {
			return true
		}
	}
	return false
}

// GhostSession is what has effectively been written under one session id (through the spy).
type GhostSession struct {
	Tokens *oidc.TokenResponse
	State  *oidc.AuthorizationState
}

// SpyStore wraps the real store: logging, fault injection, scheduling points, ghost store.
type SpyStore struct {
	W     *World
	Real  oidc.SessionStore
	Ghost map[string]*GhostSession
	// Born is when the session entry under an id came into being (first effective write); with an absolute session
	// time-out an entry that is older than the limit is gone in the abstract and the next write starts a new one.
	Born map[string]time.Time
	// RemovedBy: who (call chain inside internal/authz) last removed the session under an id through the interface
	RemovedBy map[string]string
	// a check that removes a session and writes it again under the same id has not started a new session: the entry
	// keeps the birth date it had (removedBorn/removedIn remember the removal until the end of that check)
	removedBorn map[string]time.Time
	removedIn   map[string]int64
	// Log is the log of all effective calls of the whole history (for monitors that need history).
	Log []EnvCall
}

var _ oidc.SessionStore = (*SpyStore)(nil)

func callerInAuthz() string { return callerInAuthzAt(3) }

func callerInAuthzAt(skip int) string {
	var pcs [32]uintptr
	n := runtime.Callers(skip, pcs[:])
	frames := runtime.CallersFrames(pcs[:n])
	var chain []string
	for {
		f, more := frames.Next()
		if strings.Contains(f.Function, "/internal/authz.") {
			name := f.Function[strings.LastIndex(f.Function, ".")+1:]
			chain = append(chain, name)
		}
		if !more {
			break
		}
	}
	// innermost first -> outermost>...>innermost
	for i, j := 0, len(chain)-1; i < j; i, j = i+1, j-1 {
		chain[i], chain[j] = chain[j], chain[i]
	}
	return strings.Join(chain, ">")
}

// begin registers the call, runs the scheduling point and returns the fault to apply.
func (w *World) begin(kind, method, sid string) (env *Env, idx int, fault string) {
	step := 0
	if s := vsched.Active(); s != nil {
		s.Point(kind+":"+method, sid)
		step = s.Steps()
	}
	w.CheckDrift("before " + kind + ":" + method)
	env = w.CurEnv()
	idx = len(env.Calls)
	fault = env.Faults[idx]
	if fault == "cancel" && env.Cancel != nil {
		env.Cancel()
	}
	c := EnvCall{Kind: kind, Method: method, SID: sid, Fault: fault, Step: step}
	if kind == "store" {
		c.Caller = callerInAuthz()
	}
	env.Calls = append(env.Calls, c)
	return env, idx, fault
}

func (s *SpyStore) ghost(sid string) *GhostSession {
	if s.Born == nil {
		s.Born = map[string]time.Time{}
	}
	now := s.W.Now()
	if abs := s.W.AbsTimeout(); abs > 0 {
		if b, ok := s.Born[sid]; ok && !now.Before(b.Add(abs)) {
			delete(s.Ghost, sid)
			delete(s.Born, sid)
		}
	}
	g := s.Ghost[sid]
	if g == nil {
		s.Born[sid] = now
		if b, ok := s.removedBorn[sid]; ok && s.removedIn[sid] == s.W.CurEnv().Seq {
			s.Born[sid] = b
		}
		g = &GhostSession{}
		s.Ghost[sid] = g
	}
	return g
}

func (s *SpyStore) do(method, sid string, tokens *oidc.TokenResponse, state *oidc.AuthorizationState, effect func() error, apply func()) error {
	env, idx, fault := s.W.begin("store", method, sid)
	env.Calls[idx].Tokens, env.Calls[idx].State = tokens, state
	if g := s.Ghost[sid]; g != nil && g.Tokens != nil {
		env.Calls[idx].HadTokens = true
	}
	switch fault {
	case "before":
		env.Calls[idx].Failed = true
		return ErrInjected
	case "crash":
		env.Calls[idx].Failed = true
		panic(Crash{At: idx})
	}
	err := effect()
	if err == nil {
		apply()
		s.Log = append(s.Log, env.Calls[idx])
	} else {
		env.Calls[idx].Failed = true
	}
	if fault == "after" {
		env.Calls[idx].Failed = true
		return ErrInjected
	}
	if fault == "cancel-after" && env.Cancel != nil {
		env.Cancel()
	}
	return err
}

func (s *SpyStore) SetTokenResponse(ctx context.Context, key string, t *oidc.TokenResponse) error {
	sid := s.W.CanonSID(key) // book-keeping by session id, whatever key naming the caller uses
	var cp *oidc.TokenResponse
	if t != nil {
		c := *t
		cp = &c
	}
	return s.do("SetTokenResponse", sid, cp, nil, func() error { return s.Real.SetTokenResponse(ctx, key, t) },
		func() { s.ghost(sid).Tokens = cp })
}

func (s *SpyStore) GetTokenResponse(ctx context.Context, key string) (*oidc.TokenResponse, error) {
	sid := s.W.CanonSID(key) // book-keeping by session id, whatever key naming the caller uses
	var out *oidc.TokenResponse
	err := s.do("GetTokenResponse", sid, nil, nil, func() error {
		var e error
		out, e = s.Real.GetTokenResponse(ctx, key)
		return e
	}, func() {})
	if err != nil {
		return nil, err
	}
	return out, nil
}

func (s *SpyStore) SetAuthorizationState(ctx context.Context, key string, a *oidc.AuthorizationState) error {
	sid := s.W.CanonSID(key) // book-keeping by session id, whatever key naming the caller uses
	var cp *oidc.AuthorizationState
	if a != nil {
		c := *a
		cp = &c
	}
	return s.do("SetAuthorizationState", sid, nil, cp, func() error { return s.Real.SetAuthorizationState(ctx, key, a) },
		func() { s.ghost(sid).State = cp })
}

func (s *SpyStore) GetAuthorizationState(ctx context.Context, key string) (*oidc.AuthorizationState, error) {
	sid := s.W.CanonSID(key) // book-keeping by session id, whatever key naming the caller uses
	var out *oidc.AuthorizationState
	err := s.do("GetAuthorizationState", sid, nil, nil, func() error {
		var e error
		out, e = s.Real.GetAuthorizationState(ctx, key)
		return e
	}, func() {})
	if err != nil {
		return nil, err
	}
	return out, nil
}

func (s *SpyStore) ClearAuthorizationState(ctx context.Context, key string) error {
	sid := s.W.CanonSID(key) // book-keeping by session id, whatever key naming the caller uses
	return s.do("ClearAuthorizationState", sid, nil, nil, func() error { return s.Real.ClearAuthorizationState(ctx, key) },
		func() {
			if g := s.Ghost[sid]; g != nil {
				g.State = nil
			}
		})
}

func (s *SpyStore) RemoveSession(ctx context.Context, key string) error {
	sid := s.W.CanonSID(key) // book-keeping by session id, whatever key naming the caller uses
	return s.do("RemoveSession", sid, nil, nil, func() error { return s.Real.RemoveSession(ctx, key) },
		func() {
			if b, ok := s.Born[sid]; ok {
				if s.removedBorn == nil {
					s.removedBorn, s.removedIn = map[string]time.Time{}, map[string]int64{}
				}
				s.removedBorn[sid], s.removedIn[sid] = b, s.W.CurEnv().Seq
			}
			delete(s.Ghost, sid)
			delete(s.Born, sid)
			if s.RemovedBy == nil {
				s.RemovedBy = map[string]string{}
			}
			s.RemovedBy[sid] = callerInAuthzAt(4)
		})
}

func (s *SpyStore) RemoveAllExpired(ctx context.Context) error {
	return s.do("RemoveAllExpired", "", nil, nil, func() error { return s.Real.RemoveAllExpired(ctx) }, func() {})
}

// fixedFactory hands out one store for every config.
type fixedFactory struct{ s oidc.SessionStore }

func (f fixedFactory) Get(*oidcv1.OIDCConfig) oidc.SessionStore { return f.s }

// SpyJWKS wraps the real key source.
type SpyJWKS struct {
	W    *World
	Real oidc.JWKSProvider
}

func (j *SpyJWKS) Get(ctx context.Context, cfg *oidcv1.OIDCConfig) (jwk.Set, error) {
	env, idx, fault := j.W.begin("jwks", "Get", "")
	if fault == "crash" {
		env.Calls[idx].Failed = true
		panic(Crash{At: idx})
	}
	if fault == "before" || fault == "after" {
		env.Calls[idx].Failed = true
		return nil, ErrInjected
	}
	set, err := j.Real.Get(ctx, cfg)
	if err != nil {
		env.Calls[idx].Failed = true
	}
	return set, err
}

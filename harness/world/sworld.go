package world

import (
	"context"
	"encoding/json"
	"fmt"
	"io"
	"net"
	"net/http"
	"os"
	"path/filepath"
	"strings"
	"sync"
	"sync/atomic"
	"time"

	"github.com/alicebob/miniredis/v2"
	envoy "github.com/envoyproxy/go-control-plane/envoy/service/auth/v3"
	"google.golang.org/grpc/test/bufconn"

	configv1 "github.com/istio-ecosystem/authservice/config/gen/go/v1"
	"github.com/istio-ecosystem/authservice/internal"
	"github.com/istio-ecosystem/authservice/internal/oidc"
	"github.com/istio-ecosystem/authservice/internal/server"
)

// ---- in-memory network for the default HTTP transport ----

var (
	netOnce  sync.Once
	netLis   *bufconn.Listener
	netMu    sync.RWMutex
	netHosts = map[string]http.Handler{} // host -> handler
)

// InstallMemNet redirects http.DefaultTransport (which NewHTTPClient clones for every handler) to an
// in-memory listener; requests are routed by Host to registered handlers. Unknown hosts get connection refused.
func InstallMemNet() {
	netOnce.Do(func() {
		netLis = bufconn.Listen(64 << 10)
		tr := http.DefaultTransport.(*http.Transport)
		tr.DialContext = func(ctx context.Context, network, addr string) (net.Conn, error) {
			host := addr
			if h, _, err := net.SplitHostPort(addr); err == nil {
				host = h
			}
			netMu.RLock()
			_, ok := netHosts[host]
			if !ok {
				// hosts registered with an explicit port (two providers on one host), possibly with a query selector
				for k := range netHosts {
					if k == addr || strings.HasPrefix(k, addr+"?") || strings.HasPrefix(k, host+"?") {
						ok = true
					}
				}
			}
			netMu.RUnlock()
			if !ok {
				return nil, fmt.Errorf("memnet: connection refused to %s", addr)
			}
			return netLis.DialContext(ctx)
		}
		tr.Proxy = nil
		srv := &http.Server{Handler: http.HandlerFunc(func(w http.ResponseWriter, r *http.Request) {
			host := r.Host
			if h, _, err := net.SplitHostPort(host); err == nil {
				host = h
			}
			netMu.RLock()
			// most specific registration first: host:port?query, host?query, host:port, host
			var h http.Handler
			for _, k := range []string{r.Host + "?" + r.URL.RawQuery, host + "?" + r.URL.RawQuery, r.Host, host} {
				if hh, ok := netHosts[k]; ok {
					h = hh
					break
				}
			}
			netMu.RUnlock()
			if h == nil {
				http.Error(w, "no such host", http.StatusBadGateway)
				return
			}
			h.ServeHTTP(w, r)
		})}
		// every handler of the service builds its own http.Transport; with keep-alive each of them would leave an idle
		// connection (and its buffers) behind until the idle time-out - millions of them in a long search
		srv.SetKeepAlivesEnabled(false)
		go func() { _ = srv.Serve(netLis) }()
	})
}

func RegisterHost(host string, h http.Handler) {
	netMu.Lock()
	netHosts[host] = h
	netMu.Unlock()
}

func UnregisterHost(host string) {
	netMu.Lock()
	delete(netHosts, host)
	netMu.Unlock()
}

// ServeHTTP lets a SimIdP be reached over (in-memory) HTTP: token endpoint, discovery document, JWKS.
func (p *SimIdP) ServeHTTP(w http.ResponseWriter, r *http.Request) {
	p.mu.Lock()
	defer p.mu.Unlock()
	switch {
	case strings.HasSuffix(r.URL.Path, "/.well-known/openid-configuration"):
		base := "http://" + r.Host
		q := ""
		if r.URL.RawQuery != "" {
			q = "?" + r.URL.RawQuery // a provider that publishes one document per policy: its endpoints carry the selector too
		}
		doc := map[string]any{"issuer": p.Issuer, "authorization_endpoint": base + "/auth" + q, "token_endpoint": base + "/token" + q,
			"jwks_uri": base + "/jwks" + q, "end_session_endpoint": base + "/logout" + q}
		p.DiscoveryHits++
		w.Header().Set("Content-Type", "application/json")
		_ = json.NewEncoder(w).Encode(doc)
	case strings.HasSuffix(r.URL.Path, "/jwks"):
		p.JWKSHits++
		w.Header().Set("Content-Type", "application/json")
		_, _ = io.WriteString(w, JWKS(p.Key, p.RSAKey))
	case strings.HasSuffix(r.URL.Path, "/token"):
		resp, err := p.RoundTrip(r)
		if err != nil {
			if hj, ok := w.(http.Hijacker); ok {
				if c, _, e := hj.Hijack(); e == nil {
					c.Close()
					return
				}
			}
			http.Error(w, err.Error(), http.StatusBadGateway)
			return
		}
		for k, v := range resp.Header {
			w.Header()[k] = v
		}
		w.WriteHeader(resp.StatusCode)
		_, _ = io.Copy(w, resp.Body)
	default:
		http.NotFound(w, r)
	}
}

// ---- server-level world ----

// FilterSpec describes one OIDC filter of a server-level world.
type FilterSpec struct {
	Name         string `json:"name"`   // chain name and x-tenant header value
	Realm        string `json:"realm"`  // provider host, e.g. idp-a.test
	ClientID     string `json:"client_id"`
	Secret       string `json:"secret"`
	CookiePrefix string `json:"cookie_prefix,omitempty"`
	Redis        string `json:"redis,omitempty"` // "" = memory, else logical redis name ("r1", "r2")
	Abs          int    `json:"abs,omitempty"`
	Idle         int    `json:"idle,omitempty"`
	Discovery    bool   `json:"discovery,omitempty"`
	Forward      bool   `json:"forward,omitempty"`
	Logout       bool   `json:"logout,omitempty"`
	ViaOverride  bool   `json:"via_override,omitempty"` // written as oidc_override over a default_oidc_config (shared id_token/logout/scopes)
	TokenLife    int    `json:"token_life,omitempty"`   // seconds the realm's tokens live (default 3600; real clock)
	// MocksBefore / MocksAfter: mock filters (allow flags) in the chain before / after the OIDC filter
	Callback      string `json:"callback,omitempty"`       // callback URI (default https://app.test/<name>/callback)
	ChainName     string `json:"chain_name,omitempty"`     // name of the chain (default: Name); chain names need not be unique
	Key           *Key   `json:"-"`                        // signing key of the realm (default: the harness's EC key)
	RedisPassword string `json:"redis_password,omitempty"` // the Redis server requires this password; it is part of server_uri
	MocksBefore []bool `json:"mocks_before,omitempty"`
	MocksAfter  []bool `json:"mocks_after,omitempty"`
}

type SWorld struct {
	Filters  []FilterSpec
	Cfg      *configv1.Config
	Check    *server.ExtAuthZFilter
	Sessions oidc.SessionStoreFactoryUnit
	Realms   map[string]*SimIdP
	Redis    map[string]*miniredis.Miniredis
	Pool     internal.TLSConfigPool
	cancel   context.CancelFunc
	JSON     string
	hosts    []string
}

var sworldSeq int64

// NewSWorld assembles the service the way cmd/main.go does (real loader, real store factory PreRun, real
// ExtAuthZFilter) around simulated providers reachable over the in-memory network. extra is merged into the
// top-level JSON document (trigger rules etc.).
func NewSWorld(filters []FilterSpec, extra map[string]any) (*SWorld, error) {
	InitKeys()
	InstallMemNet()
	n := atomic.AddInt64(&sworldSeq, 1)
	sw := &SWorld{Filters: filters, Realms: map[string]*SimIdP{}, Redis: map[string]*miniredis.Miniredis{}}
	doc := map[string]any{"listen_address": "127.0.0.1", "listen_port": 10003, "log_level": "error"}
	var chains []any
	for _, f := range filters {
		// a realm is "host", "host:port" or either followed by "?selector" (one provider host serving one discovery
		// document per selector)
		realmHost, selector, _ := strings.Cut(f.Realm, "?")
		host := fmt.Sprintf("w%d-%s", n, realmHost)
		sel := ""
		if selector != "" {
			sel = "?" + selector
		}
		if _, ok := sw.Realms[f.Realm]; !ok {
			idp := NewSimIdP(time.Now, f.ClientID, nil, CallbackOf(f))
			secret := f.Secret
			idp.Secret = func() string { return secret }
			idp.Issuer = "http://" + host
			idp.TokenURL = "http://" + host + "/token" + sel
			idp.TokenLife = 3600
			if f.TokenLife > 0 {
				idp.TokenLife = f.TokenLife
			}
			if f.Key != nil {
				idp.Key = f.Key
			}
			sw.Realms[f.Realm] = idp
			RegisterHost(host+sel, idp)
			sw.hosts = append(sw.hosts, host+sel)
		}
		o := map[string]any{
			"callback_uri": CallbackOf(f), "client_id": f.ClientID, "client_secret": f.Secret,
			"id_token": map[string]any{"header": "authorization", "preamble": "Bearer"}, "scopes": []any{},
		}
		if f.Discovery {
			o["configuration_uri"] = "http://" + host + "/.well-known/openid-configuration" + sel
		} else {
			o["authorization_uri"] = "http://" + host + "/auth"
			o["token_uri"] = "http://" + host + "/token"
			o["jwks"] = JWKS(KeyEC, KeyRSA)
		}
		if f.CookiePrefix != "" {
			o["cookie_name_prefix"] = f.CookiePrefix
		}
		if f.Abs > 0 {
			o["absolute_session_timeout"] = f.Abs
		}
		if f.Idle > 0 {
			o["idle_session_timeout"] = f.Idle
		}
		if f.Forward {
			o["access_token"] = map[string]any{"header": "x-access-token"}
		}
		if f.Logout && !f.ViaOverride {
			lo := map[string]any{"path": "/" + f.Name + "/logout"}
			if !f.Discovery {
				lo["redirect_uri"] = "http://" + host + "/logout"
			}
			o["logout"] = lo
		}
		if f.ViaOverride {
			// shared settings live in default_oidc_config; the override carries only what differs per filter
			delete(o, "id_token")
			delete(o, "scopes")
			def := map[string]any{"id_token": map[string]any{"header": "authorization", "preamble": "Bearer"}, "scopes": []any{}}
			if f.Logout {
				def["logout"] = map[string]any{"path": "/logout"}
			}
			doc["default_oidc_config"] = def
		}
		if f.Redis != "" {
			name, db := RedisNameDB(f.Redis)
			mr, ok := sw.Redis[name]
			if !ok {
				var err error
				mr, err = miniredis.Run()
				if err != nil {
					return nil, err
				}
				sw.Redis[name] = mr
			}
			uri := "redis://" + mr.Addr()
			if f.RedisPassword != "" {
				// server_uri with credentials (the usual way to give go-redis a password)
				mr.RequireAuth(f.RedisPassword)
				uri = "redis://:" + f.RedisPassword + "@" + mr.Addr()
			}
			if strings.Contains(f.Redis, "/") {
				uri += fmt.Sprintf("/%d", db)
			}
			o["redis_session_store_config"] = map[string]any{"server_uri": uri}
		}
		kind := "oidc"
		if f.ViaOverride {
			kind = "oidc_override"
		}
		var fl []any
		for _, al := range f.MocksBefore {
			fl = append(fl, map[string]any{"mock": map[string]any{"allow": al}})
		}
		fl = append(fl, map[string]any{kind: o})
		for _, al := range f.MocksAfter {
			fl = append(fl, map[string]any{"mock": map[string]any{"allow": al}})
		}
		chainName := f.Name
		if f.ChainName != "" {
			chainName = f.ChainName
		}
		chains = append(chains, map[string]any{"name": chainName, "match": map[string]any{"header": "x-tenant", "equality": f.Name}, "filters": fl})
	}
	doc["chains"] = chains
	for k, v := range extra {
		doc[k] = v
	}
	b, _ := json.Marshal(doc)
	sw.JSON = string(b)
	dir := os.Getenv("VERIF_SCRATCH")
	if dir == "" {
		dir = os.TempDir()
	}
	p := filepath.Join(dir, fmt.Sprintf("sworld-%d-%d.json", os.Getpid(), n))
	if err := os.WriteFile(p, b, 0o600); err != nil {
		return nil, err
	}
	defer os.Remove(p)
	l := &internal.LocalConfigFile{}
	if err := l.FlagSet().Parse([]string{"--config-path", p}); err != nil {
		return nil, err
	}
	if err := l.Validate(); err != nil {
		sw.Close()
		return nil, fmt.Errorf("loader rejected the world's configuration: %w", err)
	}
	sw.Cfg = &l.Config
	ctx, cancel := context.WithCancel(context.Background())
	sw.cancel = cancel
	sw.Pool = internal.NewTLSConfigPool(ctx)
	jwks := oidc.NewJWKSProvider(sw.Cfg, sw.Pool)
	go func() { _ = jwks.ServeContext(ctx) }()
	sw.Sessions = oidc.NewSessionStoreFactory(sw.Cfg)
	if err := sw.Sessions.PreRun(); err != nil {
		sw.Close()
		return nil, err
	}
	sw.Check = server.NewExtAuthZFilter(sw.Cfg, sw.Pool, jwks, sw.Sessions)
	// the realm's client id / redirect uri follow the first filter that uses it
	for _, f := range filters {
		idp := sw.Realms[f.Realm]
		idp.ClientID = f.ClientID
	}
	return sw, nil
}

// NewSWorldOnConfig assembles the long-lived part of the service (TLS pool, key source, session-store factory,
// ExtAuthZFilter) around a configuration object the caller already holds (and keeps changing, e.g. through the
// secret controller): chain i is wired to filters[i] - name, x-tenant match, callback and the provider endpoints of
// its realm on the in-memory network. No loader, memory stores only.
func NewSWorldOnConfig(cfg *configv1.Config, filters []FilterSpec) (*SWorld, error) {
	InitKeys()
	InstallMemNet()
	n := atomic.AddInt64(&sworldSeq, 1)
	sw := &SWorld{Filters: filters, Realms: map[string]*SimIdP{}, Redis: map[string]*miniredis.Miniredis{}}
	for i, f := range filters {
		host := fmt.Sprintf("w%d-%s", n, f.Realm)
		if _, ok := sw.Realms[f.Realm]; !ok {
			idp := NewSimIdP(time.Now, f.ClientID, nil, CallbackOf(f))
			secret := f.Secret
			idp.Secret = func() string { return secret }
			idp.Issuer = "http://" + host
			idp.TokenURL = "http://" + host + "/token"
			idp.TokenLife = 3600
			sw.Realms[f.Realm] = idp
			RegisterHost(host, idp)
			sw.hosts = append(sw.hosts, host)
		}
		ch := cfg.Chains[i]
		ch.Name = f.Name
		ch.Match = &configv1.Match{Header: "x-tenant", Criteria: &configv1.Match_Equality{Equality: f.Name}}
		o := ch.Filters[0].GetOidc()
		o.AuthorizationUri, o.TokenUri = "http://"+host+"/auth", "http://"+host+"/token"
		o.CallbackUri = CallbackOf(f)
	}
	sw.Cfg = cfg
	ctx, cancel := context.WithCancel(context.Background())
	sw.cancel = cancel
	sw.Pool = internal.NewTLSConfigPool(ctx)
	jwks := oidc.NewJWKSProvider(sw.Cfg, sw.Pool)
	go func() { _ = jwks.ServeContext(ctx) }()
	sw.Sessions = oidc.NewSessionStoreFactory(sw.Cfg)
	if err := sw.Sessions.PreRun(); err != nil {
		sw.Close()
		return nil, err
	}
	sw.Check = server.NewExtAuthZFilter(sw.Cfg, sw.Pool, jwks, sw.Sessions)
	return sw, nil
}

// LastTokenAuthorization is the Authorization header of the most recent token request that reached a realm.
func (sw *SWorld) LastTokenAuthorization(realm string) string {
	idp := sw.Realms[realm]
	idp.mu.Lock()
	defer idp.mu.Unlock()
	if len(idp.TokenReqs) == 0 {
		return ""
	}
	return idp.TokenReqs[len(idp.TokenReqs)-1].Header.Get("Authorization")
}

// CallbackOf is the callback URI of a filter (its own path by default; Callback overrides it, e.g. to give two chains
// the one redirect URI registered at the provider).
func CallbackOf(f FilterSpec) string {
	if f.Callback != "" {
		return f.Callback
	}
	return "https://app.test/" + f.Name + "/callback"
}

// HasIssued reports whether this provider issued the token.
func (p *SimIdP) HasIssued(tok string) bool {
	p.mu.Lock()
	defer p.mu.Unlock()
	_, ok := p.Issued[tok]
	return ok
}

// TokenRequests is the number of token requests that reached a realm.
func (sw *SWorld) TokenRequests(realm string) int {
	idp := sw.Realms[realm]
	idp.mu.Lock()
	defer idp.mu.Unlock()
	return len(idp.TokenReqs)
}

func (sw *SWorld) Close() {
	if sw.cancel != nil {
		sw.cancel()
	}
	for _, h := range sw.hosts {
		UnregisterHost(h)
	}
	for _, m := range sw.Redis {
		m.Close()
	}
}

// RedisNameDB splits a logical redis reference "r1/2" into server name and database number.
func RedisNameDB(ref string) (string, int) {
	name, dbs, ok := strings.Cut(ref, "/")
	db := 0
	if ok {
		fmt.Sscanf(dbs, "%d", &db)
	}
	return name, db
}

// LogoutPath is the logout path of filter f in this world.
func (sw *SWorld) LogoutPath(f FilterSpec) string {
	if f.ViaOverride {
		return "/logout"
	}
	return "/" + f.Name + "/logout"
}

// RealmHost returns the in-memory host name of a filter's provider.
func (sw *SWorld) RealmHost(f FilterSpec) string {
	idp := sw.Realms[f.Realm]
	return strings.TrimPrefix(idp.Issuer, "http://")
}

// SReq is a request to the assembled service.
type SReq struct {
	Tenant  string            `json:"tenant"`
	Path    string            `json:"path"`
	Cookies map[string]string `json:"cookies,omitempty"` // cookie name -> value
}

func (sw *SWorld) Do(r SReq) Result {
	h := map[string]string{":authority": "app.test", ":path": r.Path, ":method": "GET"}
	if r.Tenant != "" {
		h["x-tenant"] = r.Tenant
	}
	if len(r.Cookies) > 0 {
		var parts []string
		for k, v := range r.Cookies {
			parts = append(parts, k+"="+v)
		}
		// deterministic order
		for i := 0; i < len(parts); i++ {
			for j := i + 1; j < len(parts); j++ {
				if parts[j] < parts[i] {
					parts[i], parts[j] = parts[j], parts[i]
				}
			}
		}
		h["cookie"] = strings.Join(parts, "; ")
	}
	req := &envoy.CheckRequest{Attributes: &envoy.AttributeContext{Request: &envoy.AttributeContext_Request{
		Http: &envoy.AttributeContext_HttpRequest{Id: "r", Method: "GET", Scheme: "https", Host: "app.test", Path: r.Path, Headers: h}}}}
	return sw.DoRaw(req)
}

func (sw *SWorld) DoRaw(req *envoy.CheckRequest) (res Result) {
	defer func() {
		if rec := recover(); rec != nil {
			res = Result{Panic: fmt.Sprint(rec)}
		}
	}()
	resp, err := sw.Check.Check(context.Background(), req)
	if err != nil {
		return Result{Err: err.Error()}
	}
	return ParseResponse(resp)
}

// Login drives a complete browser login at filter f; returns the session id and the cookie name.
func (sw *SWorld) Login(f FilterSpec) (sid, cookieName string, err error) {
	r1 := sw.Do(SReq{Tenant: f.Name, Path: "/" + f.Name + "/app"})
	if r1.Err != "" || r1.Panic != "" {
		return "", "", fmt.Errorf("login step 1: %s%s", r1.Err, r1.Panic)
	}
	cookieName = CookieName(f.CookiePrefix)
	for _, sc := range r1.SetCookies {
		if strings.HasPrefix(sc, cookieName+"=") {
			sid = strings.SplitN(strings.TrimPrefix(sc, cookieName+"="), ";", 2)[0]
		}
	}
	if sid == "" || r1.Location == "" {
		return "", "", fmt.Errorf("login step 1: no redirect/cookie (code %v)", r1.Code)
	}
	idp := sw.Realms[f.Realm]
	idp.mu.Lock()
	idp.ClientID = f.ClientID
	idp.RedirectURI = CallbackOf(f)
	cb, _, aerr := idp.Authorize(r1.Location)
	idp.mu.Unlock()
	if aerr != nil {
		return "", "", aerr
	}
	r2 := sw.Do(SReq{Tenant: f.Name, Path: strings.TrimPrefix(cb, "https://app.test"), Cookies: map[string]string{cookieName: sid}})
	if !IsRedirect(r2.HTTPStatus) || r2.Err != "" {
		return "", "", fmt.Errorf("login step 2: code=%v http=%d err=%s body=%s", r2.Code, r2.HTTPStatus, r2.Err, r2.Body)
	}
	return sid, cookieName, nil
}

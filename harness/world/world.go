package world

import (
	"context"
	"fmt"
	"net/http"
	"runtime"
	"sort"
	"strings"
	"sync"
	"time"

	"github.com/alicebob/miniredis/v2"
	corev3 "github.com/envoyproxy/go-control-plane/envoy/config/core/v3"
	envoy "github.com/envoyproxy/go-control-plane/envoy/service/auth/v3"
	"github.com/redis/go-redis/v9"
	"google.golang.org/grpc/codes"

	configv1 "github.com/istio-ecosystem/authservice/config/gen/go/v1"
	oidcv1 "github.com/istio-ecosystem/authservice/config/gen/go/v1/oidc"
	"github.com/istio-ecosystem/authservice/internal"
	"github.com/istio-ecosystem/authservice/internal/authz"
	"github.com/istio-ecosystem/authservice/internal/oidc"
	"github.com/istio-ecosystem/authservice/zzverif/vsched"
)

// T0 is the start of virtual time.
var T0 = time.Unix(1_800_000_000, 0).UTC()

// Spec describes a world so that it can be rebuilt identically.
type Spec struct {
	Store        string   `json:"store"` // memory | redis
	Forward      bool     `json:"forward,omitempty"`
	Logout       bool     `json:"logout,omitempty"`
	CookiePrefix string   `json:"cookie_prefix,omitempty"`
	Abs          int      `json:"abs,omitempty"`
	Idle         int      `json:"idle,omitempty"`
	RealGen      bool     `json:"real_gen,omitempty"`
	Scopes       []string `json:"scopes,omitempty"`
	ClientID     string   `json:"client_id,omitempty"`
	AuthzURI     string   `json:"authz_uri,omitempty"`
	CallbackURI  string   `json:"callback_uri,omitempty"`
	IDHeader     string   `json:"id_header,omitempty"`
	IDPreamble   *string  `json:"id_preamble,omitempty"`
	ATHeader     string   `json:"at_header,omitempty"`
	ATPreamble   *string  `json:"at_preamble,omitempty"`
	TokenLife    int      `json:"token_life,omitempty"`
	Discovery    bool     `json:"discovery,omitempty"`          // endpoints from configuration_uri (in-process canned provider)
	RichDiscovery bool    `json:"rich_discovery,omitempty"`     // ... whose document carries the full optional metadata with uncommon values
	OddDiscovery  int     `json:"odd_discovery,omitempty"`      // ... 1+k: document k of OddDiscoveryDocs()
	NoLogoutRedirect bool `json:"no_logout_redirect,omitempty"` // logout.redirect_uri not configured (must be discovered)
	// Replicas (Redis only): 2 = two service replicas (two store instances) on one Redis server; a request names
	// the replica that serves it (sequential histories only)
	Replicas int `json:"replicas,omitempty"`
	// Shapes marks a search over honest provider answer shapes (the opts builders of the properties read it)
	Shapes bool `json:"shapes,omitempty"`
	// DebugLog: the world runs with log_level all:debug (EnableDebugLogging: process-wide and irreversible, so such
	// worlds come last in a run)
	DebugLog bool `json:"debug_log,omitempty"`
}

const (
	DefaultClientID = "client-abc"
	ClientSecret    = "SEKRET-client-secret-marker"
	CallbackURI     = "https://app.test/callback"
	LogoutPath      = "/logout"
	LogoutRedirect  = "https://idp.test/logout"
)

// World is one fresh instance of the real components plus the harness-owned environment.
type World struct {
	Spec    Spec
	Cfg     *oidcv1.OIDCConfig
	now     time.Time
	Clock   oidc.Clock
	Raw     oidc.SessionStore
	Raw2    oidc.SessionStore // the second replica's store instance (Spec.Replicas == 2)
	rclient2 *redis.Client
	Store   *SpyStore
	Factory oidc.SessionStoreFactory
	Mini    *miniredis.Miniredis
	rclient *redis.Client
	IdP     *SimIdP
	JWKS    *SpyJWKS
	Gen     *Gen
	Env     *Env
	Envs    []*Env // per thread under schedx
	TLSPool internal.TLSConfigPool
	Crashes int
	Keys    []*Key // keys currently published by the provider
	Rolled  bool
	// Drift: first observation that the real (memory) store holds something that was not written through the store
	// interface (e.g. a caller mutating an object the store handed out).
	Drift string
	redisQuiet bool // harness-internal Redis access (not part of a check)
}

var (
	poolOnce sync.Once
	tlsPool  internal.TLSConfigPool
	jwksReal *oidc.DefaultJWKSProvider
)

func sharedPool() internal.TLSConfigPool {
	poolOnce.Do(func() {
		tlsPool = internal.NewTLSConfigPool(context.Background())
		jwksReal = oidc.NewJWKSProvider(&configv1.Config{}, tlsPool)
		go func() { _ = jwksReal.ServeContext(context.Background()) }()
	})
	return tlsPool
}

// Gen is a deterministic counting generator that also records everything it issued (real generator optional).
type Gen struct {
	n      int
	Real   oidc.SessionGenerator
	Issued []string
	SIDs   []string
}

func (g *Gen) mk(prefix string, width int) string {
	g.n++
	s := fmt.Sprintf("%s%04d", prefix, g.n)
	for len(s) < width {
		s += "x"
	}
	return s
}
func (g *Gen) rec(s string) string { g.Issued = append(g.Issued, s); return s }
func (g *Gen) GenerateSessionID() string {
	var s string
	if g.Real != nil {
		s = g.Real.GenerateSessionID()
	} else {
		s = g.mk("sid", 16)
	}
	g.SIDs = append(g.SIDs, s)
	return g.rec(s)
}
func (g *Gen) GenerateNonce() string {
	if g.Real != nil {
		return g.rec(g.Real.GenerateNonce())
	}
	return g.rec(g.mk("nonce", 12))
}
func (g *Gen) GenerateState() string {
	if g.Real != nil {
		return g.rec(g.Real.GenerateState())
	}
	return g.rec(g.mk("state", 12))
}
func (g *Gen) GenerateCodeVerifier() string {
	if g.Real != nil {
		return g.rec(g.Real.GenerateCodeVerifier())
	}
	return g.rec(g.mk("verifier-sekret-", 43))
}

// MiniPool hands a private miniredis to each worker goroutine.
type MiniPool struct {
	mu   sync.Mutex
	free []*miniredis.Miniredis
}

var Minis MiniPool

func (p *MiniPool) Get() *miniredis.Miniredis {
	p.mu.Lock()
	if n := len(p.free); n > 0 {
		m := p.free[n-1]
		p.free = p.free[:n-1]
		p.mu.Unlock()
		m.FlushAll()
		return m
	}
	p.mu.Unlock()
	m, err := miniredis.Run()
	if err != nil {
		panic(err)
	}
	return m
}

func (p *MiniPool) Put(m *miniredis.Miniredis) {
	p.mu.Lock()
	p.free = append(p.free, m)
	p.mu.Unlock()
}

// New builds a world from spec.
func New(spec Spec) *World {
	initKeys()
	if spec.DebugLog {
		EnableDebugLogging()
	}
	w := &World{Spec: spec, now: T0, Env: &Env{}}
	w.Clock = oidc.Clock{NowFn: func() time.Time { return w.now }}
	w.TLSPool = sharedPool()
	cid := spec.ClientID
	if cid == "" {
		cid = DefaultClientID
	}
	cb := spec.CallbackURI
	if cb == "" {
		cb = CallbackURI
	}
	au := spec.AuthzURI
	if au == "" {
		au = "https://idp.test/auth"
	}
	scopes := spec.Scopes
	if scopes == nil {
		scopes = []string{"openid"}
	}
	idh := spec.IDHeader
	if idh == "" {
		idh = "authorization"
	}
	idp := "Bearer"
	if spec.IDPreamble != nil {
		idp = *spec.IDPreamble
	}
	cfg := &oidcv1.OIDCConfig{
		AuthorizationUri:   au,
		TokenUri:           "https://idp.test/token",
		CallbackUri:        cb,
		JwksConfig:         &oidcv1.OIDCConfig_Jwks{Jwks: JWKS(KeyEC, KeyRSA)},
		ClientId:           cid,
		ClientSecretConfig: &oidcv1.OIDCConfig_ClientSecret{ClientSecret: ClientSecret},
		Scopes:             scopes,
		CookieNamePrefix:   spec.CookiePrefix,
		IdToken:            &oidcv1.TokenConfig{Header: idh, Preamble: idp},
		AbsoluteSessionTimeout: uint32(spec.Abs),
		IdleSessionTimeout:     uint32(spec.Idle),
	}
	if spec.Forward {
		ath := spec.ATHeader
		if ath == "" {
			ath = "x-access-token"
		}
		atp := ""
		if spec.ATPreamble != nil {
			atp = *spec.ATPreamble
		}
		cfg.AccessToken = &oidcv1.TokenConfig{Header: ath, Preamble: atp}
	}
	if spec.Logout {
		cfg.Logout = &oidcv1.LogoutConfig{Path: LogoutPath, RedirectUri: LogoutRedirect}
		if spec.NoLogoutRedirect {
			cfg.Logout.RedirectUri = ""
		}
	}
	if spec.Discovery {
		EnsureDiscoveryNet()
		cfg.ConfigurationUri = DiscBaseOf(spec) + "/.well-known/openid-configuration"
		cfg.AuthorizationUri, cfg.TokenUri, cfg.JwksConfig = "", "", nil
	}
	w.Cfg = cfg
	abs, idle := time.Duration(spec.Abs)*time.Second, time.Duration(spec.Idle)*time.Second
	switch spec.Store {
	case "redis":
		w.Mini = Minis.Get()
		w.Mini.SetTime(w.now)
		w.rclient = redis.NewClient(&redis.Options{Addr: w.Mini.Addr(), MaxRetries: -1})
		w.redisQuiet = true
		w.rclient.AddHook(redisHook{w})
		r, err := oidc.NewRedisStore(&w.Clock, w.rclient, abs, idle)
		w.redisQuiet = false
		if err != nil {
			panic(err)
		}
		w.Raw = r
		if spec.Replicas == 2 {
			w.newReplica2(abs, idle)
		}
	default:
		w.Raw = oidc.NewMemoryStore(&w.Clock, abs, idle)
	}
	w.Store = &SpyStore{W: w, Real: w.Raw, Ghost: map[string]*GhostSession{}}
	w.Factory = fixedFactory{w.Store}
	w.IdP = NewSimIdP(func() time.Time { return w.now }, cid, func() string { return w.Cfg.GetClientSecret() }, cb)
	if spec.TokenLife > 0 {
		w.IdP.TokenLife = spec.TokenLife
	}
	w.Keys = []*Key{KeyEC, KeyRSA}
	w.IdP.Hook = w.idpHook
	w.IdP.Tagger = func() (int, int) {
		if s := vsched.Active(); s != nil {
			return s.Running(), s.Steps()
		}
		return -1, 0
	}
	w.JWKS = &SpyJWKS{W: w, Real: jwksReal}
	w.Gen = &Gen{}
	if spec.RealGen {
		w.Gen.Real = oidc.NewRandomGenerator()
	}
	return w
}

// NewWithConfig builds a world around an existing OIDCConfig object (shared with other components).
func NewWithConfig(spec Spec, cfg *oidcv1.OIDCConfig) *World {
	w := New(spec)
	w.Cfg = cfg
	w.IdP.ClientID = cfg.GetClientId()
	w.IdP.RedirectURI = cfg.GetCallbackUri()
	return w
}

// Close releases the world's resources.
func (w *World) newReplica2(abs, idle time.Duration) {
	if w.rclient2 != nil {
		_ = w.rclient2.Close()
	}
	w.rclient2 = redis.NewClient(&redis.Options{Addr: w.Mini.Addr(), MaxRetries: -1})
	w.redisQuiet = true
	w.rclient2.AddHook(redisHook{w})
	r2, err := oidc.NewRedisStore(&w.Clock, w.rclient2, abs, idle)
	w.redisQuiet = false
	if err != nil {
		panic(err)
	}
	w.Raw2 = r2
}

func (w *World) Close() {
	if w.rclient != nil {
		_ = w.rclient.Close()
		w.rclient = nil
	}
	if w.rclient2 != nil {
		_ = w.rclient2.Close()
		w.rclient2 = nil
	}
	if w.Mini != nil {
		Minis.Put(w.Mini)
		w.Mini = nil
	}
}

// CrashRestart models the process dying: the memory store is lost; a Redis-backed service comes back as a
// new store instance over the same server.
func (w *World) CrashRestart() {
	w.Crashes++
	abs, idle := time.Duration(w.Spec.Abs)*time.Second, time.Duration(w.Spec.Idle)*time.Second
	if w.Mini != nil {
		_ = w.rclient.Close()
		w.rclient = redis.NewClient(&redis.Options{Addr: w.Mini.Addr(), MaxRetries: -1})
		w.redisQuiet = true
		w.rclient.AddHook(redisHook{w})
		r, err := oidc.NewRedisStore(&w.Clock, w.rclient, abs, idle)
		w.redisQuiet = false
		if err != nil {
			panic(err)
		}
		w.Raw = r
		// the ghost keeps what Redis kept
	} else {
		w.Raw = oidc.NewMemoryStore(&w.Clock, abs, idle)
		w.Store.Ghost = map[string]*GhostSession{}
	}
	w.Store.Real = w.Raw
	if w.Mini != nil && w.Spec.Replicas == 2 {
		w.newReplica2(abs, idle) // (a crash of the whole deployment: both replicas come back empty-handed)
	}
}

func (w *World) Now() time.Time { return w.now }

// DiscoveryBase is the base URL of the canned provider used by discovery worlds.
const DiscoveryBase = "http://disc.idp.test"

// DiscoveryBase2 serves the rich discovery document.
const DiscoveryBase2 = "http://disc2.idp.test"

// DiscBaseOf is the base URL of the discovery provider of a world.
func DiscBaseOf(spec Spec) string {
	if spec.OddDiscovery > 0 {
		return fmt.Sprintf("http://disc-odd-%d.idp.test", spec.OddDiscovery-1)
	}
	if spec.RichDiscovery {
		return DiscoveryBase2
	}
	return DiscoveryBase
}

var discOnce sync.Once

// EnsureDiscoveryNet installs (once per process) the canned network with the discovery provider.
func EnsureDiscoveryNet() {
	discOnce.Do(func() {
		InitKeys()
		hosts := map[string]Responder{"disc.idp.test": CannedIdP(DiscoveryBase, nil), "disc2.idp.test": CannedIdPDoc(DiscoveryBase2, nil, true)}
		for k, d := range OddDiscoveryDocs() {
			hosts[fmt.Sprintf("disc-odd-%d.idp.test", k)] = CannedDoc(d.Doc)
		}
		InstallCannedNet(hosts, nil)
	})
}

// ExpectedLogoutRedirect is the end-session URI a successful logout must redirect to: the configured one, or
// the discovered one when none is configured.
func (w *World) ExpectedLogoutRedirect() string {
	if w.Spec.NoLogoutRedirect {
		return DiscBaseOf(w.Spec) + "/logout"
	}
	return LogoutRedirect
}

// ResyncGhost rebuilds the ghost from what the Redis server actually holds (after a command-level fault a store call
// may have been applied only in part, so the ghost of "successful store calls" no longer describes the store).
func (w *World) ResyncGhost() {
	if w.Mini == nil {
		return
	}
	w.redisQuiet = true
	defer func() { w.redisQuiet = false }()
	// (by session id through the store's own read methods, not by Redis key: how a store names its keys is its business)
	ids := map[string]bool{"attackerchosenid": true}
	for _, sid := range w.Gen.SIDs {
		ids[sid] = true
	}
	for sid := range w.Store.Ghost {
		ids[sid] = true
	}
	ghost := map[string]*GhostSession{}
	for sid := range ids {
		if sid == "" || RedisKeyFor(w.Mini, 0, sid) == "" {
			continue
		}
		g := &GhostSession{}
		if t, err := w.Raw.GetTokenResponse(context.Background(), sid); err == nil && t != nil {
			g.Tokens = t
		}
		if a, err := w.Raw.GetAuthorizationState(context.Background(), sid); err == nil && a != nil {
			g.State = a
		}
		ghost[sid] = g
	}
	w.Store.Ghost = ghost
}

// Rollover: the provider rolls its signing key (new EC key, the old one is no longer published).
func (w *World) Rollover() {
	w.Rolled = true
	w.IdP.Key = KeyEC2
	w.Keys = []*Key{KeyEC2, KeyRSA}
	w.Cfg.JwksConfig = &oidcv1.OIDCConfig_Jwks{Jwks: JWKS(KeyEC2, KeyRSA)}
}

// Advance moves virtual time (and the Redis server's clock) forward.
func (w *World) Advance(d time.Duration) {
	w.now = w.now.Add(d)
	if w.Mini != nil {
		w.Mini.SetTime(w.now)
		w.Mini.FastForward(d)
	}
}

// AbsTimeout is the configured absolute session time-out (0: none).
func (w *World) AbsTimeout() time.Duration { return time.Duration(w.Spec.Abs) * time.Second }

// CurEnv returns the environment log of the calling check.
func (w *World) CurEnv() *Env {
	if s := vsched.Active(); s != nil && w.Envs != nil {
		return w.Envs[s.Running()]
	}
	return w.Env
}

func (w *World) idpHook(req *http.Request) error {
	env, idx, fault := w.begin("idp", "token", "")
	switch fault {
	case "before":
		env.Calls[idx].Failed = true
		w.IdP.Mode.Transport = "before"
	case "after":
		env.Calls[idx].Failed = true
		w.IdP.Mode.Transport = "after"
	case "crash":
		env.Calls[idx].Failed = true
		panic(Crash{At: idx})
	case "cancel-after":
		if env.Cancel != nil {
			w.IdP.AfterProcess = env.Cancel
		}
	}
	return nil
}

// Req is one request as Envoy would forward it.
type Req struct {
	Path      string `json:"path"`             // full :path (query included)
	Cookie    string `json:"cookie,omitempty"` // session id presented under this filter's cookie name
	RawCookie string `json:"raw_cookie,omitempty"`
	Host      string `json:"host,omitempty"`
	Scheme    string `json:"scheme,omitempty"`
	Replica   int    `json:"replica,omitempty"` // which service replica serves the request (worlds with Spec.Replicas == 2)
	// CookieForm: shape of the Cookie header around the session cookie, "{C}" standing for name=value - what browsers
	// really send next to it (other applications' cookies, a trailing semicolon, a pair without value)
	CookieForm string `json:"cookie_form,omitempty"`
	// CookieOther: another session id, for "{O}" in CookieForm (a second session-cookie pair smuggled into the header)
	CookieOther string `json:"cookie_other,omitempty"`
	// ExtraHeaders: further request headers (what proxies in front of Envoy add: x-forwarded-*, forwarded, ...)
	ExtraHeaders map[string]string `json:"extra_headers,omitempty"`
}

// Result is a parsed CheckResponse.
type Result struct {
	Err        string      `json:"err,omitempty"`
	Panic      string      `json:"panic,omitempty"`
	Crashed    bool        `json:"crashed,omitempty"`
	Code       codes.Code  `json:"code"`
	OK         bool        `json:"ok"`
	HTTPStatus int         `json:"http_status,omitempty"`
	Location   string      `json:"location,omitempty"`
	SetCookies []string    `json:"set_cookies,omitempty"`
	Body       string      `json:"body,omitempty"`
	Headers    [][2]string `json:"headers,omitempty"` // denied: response headers; ok: upstream headers (sorted)
	Message    string      `json:"message,omitempty"`
	Raw        *envoy.CheckResponse `json:"-"`
	WellFormed string      `json:"well_formed,omitempty"` // "" if ok, else what is wrong
}

// IsRedirect: any HTTP redirect status (the properties speak of redirects, not of a particular 3xx code).
func IsRedirect(status int) bool {
	return status == 301 || status == 302 || status == 303 || status == 307 || status == 308
}

func CookieName(prefix string) string {
	if prefix != "" {
		return "__Host-" + prefix + "-authservice-session-id-cookie"
	}
	return "__Host-authservice-session-id-cookie"
}

// Envoy builds the CheckRequest.
func (w *World) Envoy(r Req) *envoy.CheckRequest {
	host := r.Host
	if host == "" {
		host = "app.test"
	}
	scheme := r.Scheme
	if scheme == "" {
		scheme = "https"
	}
	h := map[string]string{":authority": host, ":path": r.Path, ":method": "GET"}
	if r.RawCookie != "" {
		h["cookie"] = r.RawCookie
	} else if r.Cookie != "" && r.CookieForm != "" {
		h["cookie"] = strings.NewReplacer("{C}", CookieName(w.Spec.CookiePrefix)+"="+r.Cookie, "{N}", CookieName(w.Spec.CookiePrefix), "{O}", r.CookieOther).Replace(r.CookieForm)
	} else if r.Cookie != "" {
		h["cookie"] = "other=1; " + CookieName(w.Spec.CookiePrefix) + "=" + r.Cookie
	}
	for k, v := range r.ExtraHeaders {
		h[k] = v
	}
	return &envoy.CheckRequest{Attributes: &envoy.AttributeContext{Request: &envoy.AttributeContext_Request{
		Http: &envoy.AttributeContext_HttpRequest{Id: "req", Method: "GET", Scheme: scheme, Host: host, Path: r.Path, Headers: h, Protocol: "HTTP/1.1"},
	}}}
}

// Plan is what the environment does during one check.
type Plan struct {
	Faults      map[int]string `json:"faults,omitempty"`
	RedisFaults map[int]string `json:"redis_faults,omitempty"` // Redis command index within the check -> before | after
	Answer      *Answer        `json:"answer,omitempty"`
}

// NewHandler builds a handler the way ExtAuthZFilter.Check does (one per check), with the simulated provider
// as HTTP client.
func (w *World) NewHandler() (authz.Handler, error) {
	h, err := authz.NewOIDCHandler(w.Cfg, w.TLSPool, w.JWKS, w.Factory, w.Clock, w.Gen)
	if err != nil {
		return nil, err
	}
	authz.VerifSetIdPTransport(h, w.IdP)
	return h, nil
}

// Do performs one check on a fresh handler and parses the outcome.
func (w *World) Do(r Req, p Plan) Result {
	w.CurEnv().reset(p.Faults)
	w.CurEnv().RedisFaults = p.RedisFaults
	if w.Raw2 != nil {
		if r.Replica == 1 {
			w.Store.Real = w.Raw2
		} else {
			w.Store.Real = w.Raw
		}
	}
	if p.Answer != nil {
		w.IdP.Mode = *p.Answer
	} else {
		w.IdP.Mode = Honest
	}
	return w.DoRaw(w.Envoy(r))
}

// DoRaw runs Process on a raw request, recovering panics.
func (w *World) DoRaw(req *envoy.CheckRequest) (res Result) {
	resp := &envoy.CheckResponse{}
	defer func() {
		if rec := recover(); rec != nil {
			if _, ok := rec.(Crash); ok {
				res = Result{Crashed: true, Code: codes.Unavailable}
				return
			}
			buf := make([]byte, 4096)
			buf = buf[:runtime.Stack(buf, false)]
			res = Result{Panic: fmt.Sprint(rec), Code: codes.Unknown, Body: string(buf)}
		}
	}()
	h, err := w.NewHandler()
	if err != nil {
		return Result{Err: err.Error(), Code: codes.Unknown}
	}
	ctx, cancel := context.WithCancel(context.Background())
	defer cancel()
	w.CurEnv().Cancel = cancel
	if err := h.Process(ctx, req, resp); err != nil {
		return Result{Err: err.Error(), Code: codes.Unknown}
	}
	return ParseResponse(resp)
}

// ParseResponse flattens a CheckResponse and checks its well-formedness.
func ParseResponse(resp *envoy.CheckResponse) Result {
	res := Result{Raw: resp}
	if resp == nil {
		res.WellFormed = "nil response"
		return res
	}
	if resp.Status == nil {
		res.WellFormed = "no status"
		res.Code = codes.Unknown
	} else {
		res.Code = codes.Code(resp.Status.Code)
		res.Message = resp.Status.Message
	}
	res.OK = resp.Status != nil && res.Code == codes.OK
	add := func(hs []*corev3.HeaderValueOption) {
		for _, h := range hs {
			k, v := h.GetHeader().GetKey(), h.GetHeader().GetValue()
			res.Headers = append(res.Headers, [2]string{k, v})
			switch strings.ToLower(k) {
			case "location":
				res.Location = v
			case "set-cookie":
				res.SetCookies = append(res.SetCookies, v)
			}
		}
	}
	switch b := resp.HttpResponse.(type) {
	case *envoy.CheckResponse_OkResponse:
		if !res.OK {
			// Envoy answers the browser from denied_response only; an ok_response left attached to a non-OK status
			// goes nowhere (neither upstream nor to the browser)
			res.WellFormed = "non-OK status with OkResponse body"
		} else {
			add(b.OkResponse.GetHeaders())
		}
		sort.Slice(res.Headers, func(i, j int) bool { return res.Headers[i][0] < res.Headers[j][0] })
	case *envoy.CheckResponse_DeniedResponse:
		if res.OK {
			res.WellFormed = "OK status with DeniedResponse body"
		}
		add(b.DeniedResponse.GetHeaders())
		res.Body = b.DeniedResponse.GetBody()
		res.HTTPStatus = int(b.DeniedResponse.GetStatus().GetCode())
	case nil:
		// bare status: acceptable for the server's own allow/deny and for mock filters
	default:
		res.WellFormed = "unexpected body arm"
	}
	return res
}

// SessionFromSetCookie extracts the session id of the first Set-Cookie that names this world's cookie.
func (w *World) SessionFromSetCookie(res Result) string {
	name := CookieName(w.Spec.CookiePrefix) + "="
	for _, sc := range res.SetCookies {
		if strings.HasPrefix(sc, name) {
			v := sc[len(name):]
			if i := strings.Index(v, ";"); i >= 0 {
				v = v[:i]
			}
			return v
		}
	}
	return ""
}

// SortByIssue orders store keys by the order in which the generator issued the session id they contain (random ids
// must not decide the order of a canonical dump); keys with no issued id come last, in string order.
func (w *World) SortByIssue(keys []string) {
	rank := func(k string) int {
		for i, sid := range w.Gen.SIDs {
			if sid != "" && strings.Contains(k, sid) {
				return i
			}
		}
		return 1 << 30
	}
	sort.SliceStable(keys, func(i, j int) bool {
		ri, rj := rank(keys[i]), rank(keys[j])
		if ri != rj {
			return ri < rj
		}
		return keys[i] < keys[j]
	})
}

// StoreDump is a deterministic dump of the real store's content (memory: white-box snapshot; Redis: HGETALL+TTL).
func (w *World) StoreDump(withTimes bool) string {
	var sb strings.Builder
	if w.Mini != nil {
		keys := w.Mini.Keys()
		w.SortByIssue(keys)
		for _, k := range keys {
			fmt.Fprintf(&sb, "[%s", k)
			fields, _ := w.Mini.HKeys(k)
			sort.Strings(fields)
			for _, f := range fields {
				v := w.Mini.HGet(k, f)
				if f == "time_added" {
					if !withTimes {
						continue
					}
					if t, err := time.Parse(time.RFC3339Nano, v); err == nil {
						v = fmt.Sprint(t.Sub(w.now))
					}
				}
				if f == "access_token_expiry" {
					if t, err := time.Parse(time.RFC3339Nano, v); err == nil {
						v = fmt.Sprint(t.Sub(w.now))
					}
				}
				fmt.Fprintf(&sb, " %s=%s", f, v)
			}
			if withTimes {
				fmt.Fprintf(&sb, " ttl=%v", w.Mini.TTL(k))
			}
			sb.WriteString("]")
		}
		return sb.String()
	}
	snap := oidc.VerifMemorySnapshot(w.Raw)
	ids := make([]string, 0, len(snap))
	for id := range snap {
		ids = append(ids, id)
	}
	w.SortByIssue(ids)
	for _, id := range ids {
		s := snap[id]
		fmt.Fprintf(&sb, "[%s", id)
		if s.State != nil {
			fmt.Fprintf(&sb, " st=%s n=%s u=%s v=%s", s.State.State, s.State.Nonce, s.State.RequestedURL, s.State.CodeVerifier)
		}
		if s.Tokens != nil {
			exp := "zero"
			if !s.Tokens.AccessTokenExpiresAt.IsZero() {
				exp = fmt.Sprint(s.Tokens.AccessTokenExpiresAt.Sub(w.now))
			}
			fmt.Fprintf(&sb, " id=%s at=%s rt=%s ax=%s", s.Tokens.IDToken, s.Tokens.AccessToken, s.Tokens.RefreshToken, exp)
		}
		if withTimes {
			fmt.Fprintf(&sb, " added=%v accessed=%v", s.Added.Sub(w.now), s.Accessed.Sub(w.now))
		}
		sb.WriteString("]")
	}
	return sb.String()
}

// CheckDrift compares the real memory store with the ghost of effective writes (token values and login state only;
// timestamps are not compared). Called at every environment call and after every check.
func (w *World) CheckDrift(where string) {
	if w.Drift != "" || w.Mini != nil {
		return
	}
	snap := oidc.VerifMemorySnapshot(w.Raw)
	if snap == nil {
		return
	}
	for sid, se := range snap {
		g := w.Store.Ghost[sid]
		var gt *oidc.TokenResponse
		var gs *oidc.AuthorizationState
		if g != nil {
			gt, gs = g.Tokens, g.State
		}
		switch {
		case (se.Tokens == nil) != (gt == nil):
			if se.Tokens != nil || g != nil {
				w.Drift = fmt.Sprintf("tokens: %s: tokens of session present=%v in the store but present=%v by the writes made through the interface", where, se.Tokens != nil, gt != nil)
			}
		case se.Tokens != nil && (se.Tokens.IDToken != gt.IDToken || se.Tokens.AccessToken != gt.AccessToken || se.Tokens.RefreshToken != gt.RefreshToken ||
			!se.Tokens.AccessTokenExpiresAt.Equal(gt.AccessTokenExpiresAt)):
			w.Drift = fmt.Sprintf("tokens: %s: the stored token response differs from the last one written through SetTokenResponse", where)
		case (se.State == nil) != (gs == nil):
			if se.State != nil || g != nil {
				w.Drift = fmt.Sprintf("state: %s: login state present=%v in the store but present=%v by the writes made through the interface", where, se.State != nil, gs != nil)
			}
		case se.State != nil && *se.State != *gs:
			w.Drift = fmt.Sprintf("state: %s: the stored login state differs from the last one written through SetAuthorizationState", where)
		}
		if w.Drift != "" {
			return
		}
	}
}

// HasTokens reports whether the real store currently holds tokens under sid (white-box, no side effects).
func (w *World) HasAnything(sid string) bool {
	if w.Mini != nil {
		return RedisKeyFor(w.Mini, 0, sid) != ""
	}
	snap := oidc.VerifMemorySnapshot(w.Raw)
	if _, ok := snap[sid]; ok {
		return true
	}
	if sid == "" {
		return false
	}
	for k := range snap {
		if strings.Contains(k, sid) { // a key that merely contains the id: a key-naming scheme, not a missing session
			return true
		}
	}
	return false
}

// CanonSID maps a store key to the session id (cookie value) it belongs to: the key itself, or - when a caller
// namespaces its keys - the issued id the key contains.
func (w *World) CanonSID(key string) string {
	if key == "" {
		return key
	}
	for _, sid := range w.Gen.SIDs {
		if sid != "" && key != sid && strings.Contains(key, sid) {
			return sid
		}
	}
	if key != "attackerchosenid" && strings.Contains(key, "attackerchosenid") {
		return "attackerchosenid"
	}
	return key
}

// RedisKeyFor finds the key under which a store keeps session sid (the id itself today; a key that merely contains
// the id is accepted so that a key-naming scheme is not mistaken for a missing session).
func RedisKeyFor(m *miniredis.Miniredis, db int, sid string) string {
	d := m.DB(db)
	if d.Exists(sid) {
		return sid
	}
	if sid == "" {
		return ""
	}
	for _, k := range d.Keys() {
		if strings.Contains(k, sid) {
			return k
		}
	}
	return ""
}

// Canon renames every generated atom (session ids, states, nonces, verifiers, codes, tokens) by order of first
// appearance in s. The implementation inspects those atoms only through equality, so the renaming is a
// bisimulation (DESIGN A.2).
func (w *World) Canon(s string) string {
	type pos struct {
		atom string
		at   int
	}
	var ps []pos
	seen := map[string]bool{}
	addAtom := func(a string) {
		if a == "" || seen[a] {
			return
		}
		seen[a] = true
		if i := strings.Index(s, a); i >= 0 {
			ps = append(ps, pos{a, i})
		}
	}
	for _, a := range w.Gen.Issued {
		addAtom(a)
	}
	for _, c := range w.IdP.Codes {
		addAtom(c.Value)
		addAtom(c.Req.Challenge)
	}
	for t := range w.IdP.Issued {
		addAtom(t)
	}
	sort.Slice(ps, func(i, j int) bool {
		if ps[i].at != ps[j].at {
			return ps[i].at < ps[j].at
		}
		return len(ps[i].atom) > len(ps[j].atom)
	})
	var rep []string
	for i, p := range ps {
		rep = append(rep, p.atom, fmt.Sprintf("@%d", i))
	}
	return strings.NewReplacer(rep...).Replace(s)
}

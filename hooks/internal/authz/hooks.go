//go:build verif

package authz

import (
	"net/http"

	inthttp "github.com/istio-ecosystem/authservice/internal/http"
)

// VerifSetHTTPClient installs the HTTP client used for identity-provider requests (the repository's own tests
// set the same private field).
func VerifSetHTTPClient(h Handler, c *http.Client) bool {
	o, ok := h.(*oidcHandler)
	if !ok {
		return false
	}
	o.httpClient = c
	return true
}

// VerifSetIdPTransport replaces only the innermost transport of the client NewOIDCHandler built (the part that
// would open a network connection) and keeps what the repository wraps around it (the logging round tripper at
// debug level), so that the harness's provider is reached through the repository's own client code.
func VerifSetIdPTransport(h Handler, rt http.RoundTripper) bool {
	o, ok := h.(*oidcHandler)
	if !ok || o.httpClient == nil {
		return false
	}
	switch t := o.httpClient.Transport.(type) {
	case *inthttp.LoggingRoundTripper:
		t.Delegate = rt
	case inthttp.LoggingRoundTripper:
		t.Delegate = rt
		o.httpClient.Transport = t
	default:
		o.httpClient.Transport = rt
	}
	return true
}

//go:build verif

package authz

import "net/http"

// VerifSetHTTPClient installs the HTTP client used for identity-provider requests (the repository's own tests
// set the same private field).
func VerifSetHTTPClient(h Handler, c *http.Client) bool {
	o, ok := h.(*oidcHandler)
	if !ok {
		return false
	}
	o.httpClient = c
	return true
}

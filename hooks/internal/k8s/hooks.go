//go:build verif

package k8s

import (
	"sigs.k8s.io/controller-runtime/pkg/client"

	configv1 "github.com/istio-ecosystem/authservice/config/gen/go/v1"
)

// VerifNewController builds a SecretController the way the repository's reconcile test does: fixed namespace,
// injected client, real loadSecrets.
func VerifNewController(cfg *configv1.Config, namespace string, c client.Client) (*SecretController, error) {
	s := NewSecretController(cfg)
	s.namespace = namespace
	s.k8sClient = c
	if err := s.loadSecrets(); err != nil {
		return nil, err
	}
	return s, nil
}

//go:build verif

package oidc

import "time"

// VerifSession is a read-only copy of one in-memory session.
type VerifSession struct {
	Tokens   *TokenResponse
	State    *AuthorizationState
	Added    time.Time
	Accessed time.Time
}

// VerifMemorySnapshot copies the content of an in-memory store (nil if s is not one).
func VerifMemorySnapshot(s SessionStore) map[string]VerifSession {
	m, ok := s.(*memoryStore)
	if !ok {
		return nil
	}
	m.mu.Lock()
	defer m.mu.Unlock()
	out := make(map[string]VerifSession, len(m.sessions))
	for id, se := range m.sessions {
		v := VerifSession{Added: se.added, Accessed: se.accessed}
		if se.tokenResponse != nil {
			c := *se.tokenResponse
			v.Tokens = &c
		}
		if se.authorizationState != nil {
			c := *se.authorizationState
			v.State = &c
		}
		out[id] = v
	}
	return out
}

#!/bin/bash
# setup_cmd: build the framework from files on disk only and warm the Go build cache (plain and -race).
set -u
VERIF="$(cd "$(dirname "$0")" && pwd)"
REPO="${VERIF_REPO:-/repo}"
. "$VERIF/tools/env.sh"
build_ovgen || exit 1
S="$(mktemp -d)"; trap 'rm -rf "$S"' EXIT
EXTRA=""
"$VERIF/bin/ovgen" -repo "$REPO" -verif "$VERIF" -out "$S/ov" $EXTRA || exit 1
(cd "$REPO" && $GO build -tags verif -overlay "$S/ov/overlay.json" -o "$S/vcheck" github.com/istio-ecosystem/authservice/zzverif/cmd/vcheck) || exit 1
"$VERIF/bin/ovgen" -repo "$REPO" -verif "$VERIF" -out "$S/ovr" -funcpoints -racepool "$(cd "$REPO" && $GO env GOROOT)" $EXTRA || exit 1
(cd "$REPO" && $GO build -race -tags verif -overlay "$S/ovr/overlay.json" -o "$S/vcheck-race" github.com/istio-ecosystem/authservice/zzverif/cmd/vcheck) || exit 1
(cd "$REPO" && $GO build -o "$S/authservice" ./cmd) || exit 1
echo "setup ok"

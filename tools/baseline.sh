#!/bin/bash
# Runs the repository's stable baseline (guard off) and compares with /root/.vp/BASELINE.json.
cd /repo && export GOFLAGS=-mod=mod GOPROXY=off
go test -json -vet=off -count=1 -timeout 25m ./... > /tmp/baseline_run.$$.json 2>/dev/null
python3 - /tmp/baseline_run.$$.json <<'PY'
import json,sys
b=json.load(open('/root/.vp/BASELINE.json'))
stable=set(b['stable_pass'])
res={}
for l in open(sys.argv[1]):
    try: e=json.loads(l)
    except: continue
    if e.get('Test') and e.get('Action') in ('pass','fail','skip'):
        res[e['Package']+'::'+e['Test']]=e['Action']
missing=sorted(t for t in stable if res.get(t)!='pass')
print('stable',len(stable),'passing',len(stable)-len(missing),'not passing',missing[:10])
sys.exit(1 if missing else 0)
PY
rc=$?; rm -f /tmp/baseline_run.$$.json; exit $rc

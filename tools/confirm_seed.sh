#!/bin/bash
# tools/confirm_seed.sh <ID>: confirm a sub-agent's seeded change from /tmp/seed/<ID>/SEED/{patch.diff,zz_demo_test.go}
# on a clean copy of the worktree (no git stash: the stash is shared between worktrees):
#  (1) baseline suite passes with the change, (2) demo fails with the change, (3) demo passes without it.
set -u
ID="$1"; D=${SEED_ROOT:-/tmp/seed}/$ID
export GOFLAGS=-mod=mod GOPROXY=off
cd "$D" || exit 2
DEMO=$(git status --porcelain | grep 'zz_demo_test.go' | grep -v SEED | awk '{print $2}' | head -1)
[ -n "$DEMO" ] || { echo "no demo test found"; exit 2; }
[ -f SEED/patch.diff ] || { echo "no SEED/patch.diff"; exit 2; }
PKG=./$(dirname "$DEMO")
cp "$DEMO" /tmp/seedtmp.$ID.demo.go
git checkout -q -- . 
rm -f "$DEMO"
git apply SEED/patch.diff || { echo "patch.diff does not apply to a clean tree"; exit 2; }
go build ./... || { echo "does not build"; exit 2; }
go test -json -vet=off -count=1 ./... > /tmp/seedtmp.$ID.suite.json 2>/dev/null
S=$(python3 - /tmp/seedtmp.$ID.suite.json <<'PY'
import json,sys
b=json.load(open('/root/.vp/BASELINE.json'))
stable=set(b['stable_pass'])
res={}
for l in open(sys.argv[1]):
    try: e=json.loads(l)
    except: continue
    if e.get('Test') and e.get('Action') in ('pass','fail','skip'):
        res[e['Package']+'::'+e['Test']]=e['Action']
missing=sorted(t for t in stable if res.get(t)!='pass')
if missing: print('baseline tests not passing:', missing[:5])
PY
)
if [ -n "$S" ]; then echo "SUITE FAILS WITH CHANGE: $S"; SUITE=fail; else SUITE=pass; fi
cp /tmp/seedtmp.$ID.demo.go "$DEMO"
go test ${DEMO_FLAGS:-} -vet=off -count=1 -run 'Demo|demo|ZZ|Seed' $PKG > /tmp/seedtmp.$ID.with.log 2>&1; W=$?
git apply -R SEED/patch.diff
go test ${DEMO_FLAGS:-} -vet=off -count=1 -run 'Demo|demo|ZZ|Seed' $PKG > /tmp/seedtmp.$ID.without.log 2>&1; WO=$?
git apply SEED/patch.diff
echo "suite_with_change=$SUITE demo_with_change_exit=$W demo_without_change_exit=$WO"
if [ "$SUITE" = pass ] && [ $W -ne 0 ] && [ $WO -eq 0 ]; then
  mkdir -p /verif/${SEED_OUT:-seeded}/$ID
  cp SEED/patch.diff /verif/${SEED_OUT:-seeded}/$ID/patch.diff
  cp "$DEMO" /verif/${SEED_OUT:-seeded}/$ID/zz_demo_test.go.txt
  [ -f SEED/NOTES.md ] && cp SEED/NOTES.md /verif/${SEED_OUT:-seeded}/$ID/NOTES.md
  echo "$DEMO" > /verif/${SEED_OUT:-seeded}/$ID/demo_path.txt
  echo CONFIRMED
else
  echo NOT-CONFIRMED; tail -5 /tmp/seedtmp.$ID.with.log; tail -5 /tmp/seedtmp.$ID.without.log
fi

# sourced by check and setup: Go environment for building /repo offline.
export GOFLAGS=-mod=mod GOPROXY=off
unset GOSUMDB
TC=/root/go/pkg/mod/golang.org/toolchain@v0.0.1-go1.24.2.linux-amd64/bin/go
if go version 2>/dev/null | grep -q 'go1\.2[4-9]'; then
  GO=go
elif (cd "${REPO:-/repo}" && go version 2>/dev/null | grep -q 'go1\.2[4-9]'); then
  GO=go
elif [ -x "$TC" ]; then
  GO="env GOTOOLCHAIN=local $TC"
else
  GO=go
fi
build_ovgen() {
  if [ ! -x "$VERIF/bin/ovgen" ] || [ "$VERIF/tools/ovgen/main.go" -nt "$VERIF/bin/ovgen" ]; then
    mkdir -p "$VERIF/bin"
    (cd "$VERIF/tools/ovgen" && GOFLAGS= GOTOOLCHAIN=local GO111MODULE=off go build -o "$VERIF/bin/ovgen.$$" main.go && mv "$VERIF/bin/ovgen.$$" "$VERIF/bin/ovgen")
  fi
}

#!/usr/bin/env python3
"""Regenerates /verif/MANIFEST.json from the table below (kept in one place so that it always validates)."""
import json, os
V = os.path.dirname(os.path.dirname(os.path.abspath(__file__)))
CHECKS = {
 "C01": ("seqx", "4 C01", "explicit-state BFS over request/clock/provider/fault histories (store calls, single Redis commands, token endpoint, key lookups; honest answer shapes; absolute/idle time-outs; two replicas) on the real handler and stores (memory, Redis) with an abstract-session oracle, plus exhaustive pre-emption-bounded schedule exploration of two overlapping checks of one expired session, plus start-up pairs of filters on different stores at server level",
         "Every OK verdict in every explored history (quick: depth 5, every env call of every check failing before/after/crash; thorough: depth 6 with single faults plus depth 4 with all pairs of faults) is justified by the ghost store + provider ledger and a fault-free check.",
         "Handler-level (Process on a per-check handler, as Check builds it); time-outs only in the expiry specs; alphabet-bounded; small searches run first."),
 "C02": ("seqx", "4 C02", "explicit-state BFS over login/refresh histories with a 42-element adversarial ID-token grammar and 5 honest answer shapes; exhaustive interleavings of two checks under an adversarial refresh; server-level pairs of providers differing only in port / discovery selector; independent stdlib JWS verifier as oracle",
         "Every SetTokenResponse in every explored history stores a token the simulated provider returned in that check (or the one already bound) that passes an independent signature/audience/nonce validator; every OK forwards exactly the bound tokens under the configured header/preamble.",
         "Grammar-bounded: validly signed non-compact serialisations and whitespace-wrapped tokens are outside it; handler-level."),
 "C03": ("enumx", "4 C03", "bounded-exhaustive enumeration of complete browser flows (provider answer shapes x configurations x targets) on the real handler with a redirect-following driver",
         "Full product of 48 compliant provider answer shapes x 48 configurations x targets: one authorization request, one code exchange, post-callback Location equals the URL first requested, then OK with the provider's tokens, and every tail request inside token lifetime is OK with no further authorization request.",
         "Handler-level flows; trigger rules and loader are covered at server level elsewhere; token lifetime 60 s virtual."),
 "C04": ("seqx+schedx", "4 C04", "explicit-state BFS over multi-browser/attacker callback histories against a strict ledger-keeping provider, plus exhaustive interleavings of concurrent callbacks",
         "Every authorization-code token request in every explored history/schedule is justified by the login state issued to the session named by the cookie (state equality incl. near-miss/duplicated parameters, stored verifier matching the sent challenge, redirect_uri, client credentials, code); a consumed login state never causes a second exchange or an authenticated session.",
         "Overlapping identical callbacks may both exchange; with duplicated parameters any occurrence may count."),
 "C05": ("seqx", "4 C05", "explicit-state BFS with the real random id generator (incl. sloppy Cookie headers), exhaustive interleavings of checks on one expired session against a rotating provider, and a volume pass of thousands of visitors on one store; ghost sets of presented/issued ids; RFC 6265 Set-Cookie parser as oracle",
         "In every explored history (depth 6/7, 3 cookie prefixes, memory+Redis) each login redirect issues an id never presented or issued before and leaves nothing under the presented id; tokens/login state are only stored under issued ids; every Set-Cookie is __Host-, Path=/, no Domain, Secure, HttpOnly, SameSite; logout expires it.",
         "Handler-level; prefixes are RFC 6265 tokens."),
 "C08": ("enumx", "4 C08", "bounded-exhaustive enumeration of chain lists x header maps against an independent reference evaluator on the real ExtAuthZFilter.Check (mock and real OIDC filters)",
         "All chain lists of length 0..3 (filter sequences <=2 quick, <=3 plus length-4 lists thorough) x allow_unmatched x 6 header maps: status code, answering filter and number of OIDC filters reached equal the reference (first matching chain, conjunction with short-circuit, default deny).",
         "Alphabet-bounded; lower-case request header names."),
 "C09": ("schedx+seqx", "4 C09", "exhaustive schedule exploration (pre-emption bounded) of logout vs concurrent checks on the real handler and stores under a cooperative scheduler, plus a sequential BFS for the logout answer",
         "All interleavings at store-call/token-call granularity (bound 2 quick; unbounded 2 threads + bound 3 for 3 threads thorough) of a logout with checks on a fresh/expired/mid-login session, memory and Redis (one scenario at lock / Redis-command granularity judging checks that start after the logout answer): no OK produced after the logout answer and no OK on the follow-up request, except the listed known findings; the logout answer is the end-session redirect with an expired cookie, or an error when the removal failed.",
         "Atomic blocks between environment calls; known findings for the refresh/callback write that re-creates a removed session."),
 "C10": ("seqx", "4 C10", "explicit-state BFS over store operation/clock/sweep histories with a candidate-set (relational) reference of created/last-use times; handler-level BFS with a rotating provider; start-up pairs on one Redis server; real-time and binary-level replays",
         "For 6 (absolute, idle) pairs and both stores, every history up to depth 8 (11 thorough, two ids at depth 8) without any manual sweep: no read returns data past creation+absolute or last-use+idle, none drops a session more than one second inside both limits, activity never moves the absolute limit.",
         "Store level with a virtual clock; one-second band; the system-level real-time replay lives in C18's check."),
 "C11": ("seqx", "4 C11", "explicit-state BFS from the logged-in state over many token lifetimes against a ledger-keeping provider (incl. cancellation of the check at every environment call, memory store); exhaustive interleavings of two overlapping refreshes; reference merge as oracle",
         "Every refresh-grant request in every explored history (depth 9/12) carries the provider's current refresh token and the client credentials; on an honest 200 the stored and forwarded result equals the reference merge; on any failure the request is denied, the stale session is gone and a re-login redirect with a new cookie is answered.",
         "Unparsable id_token in a refresh answer is outside the alphabet; expiry compared with 10 s tolerance."),
 "C12": ("seqx+schedx", "4 C12", "explicit-state BFS differential (memory vs Redis vs plain map with created/last-used, two Redis store instances; without time-outs, with an absolute one, with both) to saturation, reference state in the canonical state, plus exhaustive interleavings of the memory store with a brute-force linearizability check",
         "The sequential state space (625 abstract states x 41 operations) is explored until no new state appears: every read and the whole content agree with the plain-map reference on both stores, whichever Redis instance serves the operation; every interleaving (at each lock operation) of the 2-3 thread harnesses is linearizable w.r.t. the reference.",
         "Time-outs 0 (expiry is C10's); Clear's error on an absent id not compared."),
 "C13": ("enumx", "4 C13", "bounded-exhaustive enumeration of client ids/scopes/URIs/targets judged by a hand-written RFC 3986 splitter and form decoder",
         "Full product (1512 / 3024 cases): the login Location splits into the configured authorization endpoint plus exactly the required parameters, each decoding to the configured/issued value; the post-login Location equals the first requested URL byte for byte; both redirects carry no-cache.",
         "Independent parser instead of net/url; exotic callback URIs are judged on the redirect_uri parameter only."),
 "C14": ("seqx", "4 C14", "explicit-state BFS over the union alphabet (faults, failing/forged provider answers, near-miss callbacks) with a marker-search monitor over every serialised answer",
         "No denied/redirect answer of any explored history contains the client secret, a PKCE verifier, a refresh/access/ID token or client_id:secret in raw, escaped, hex or base64 (3 alignments) form; OK answers add only the configured token headers.",
         "Encodings searched are the listed ones; logs are not answers."),
 "C15": ("enumx", "4 C15", "deviation-bounded enumeration of request shapes, token-endpoint answers (singles+pairs, triples thorough), key documents and store answers with recover() as oracle",
         "No case of the grammar (2980 quick / 22650 thorough) makes Process or Check panic, and every verdict is well-formed (status set, body arm consistent); follow-up requests read back whatever was stored.",
         "Grammar-bounded; coverage-guided mutation not claimed."),
 "C16": ("schedx", "4 C16", "exhaustive schedule exploration under the cooperative scheduler built with -race: hand-offs are raw pipe syscalls invisible to the race runtime, sync.Pool's race annotations are stripped by overlay, scheduling points at every lock operation and every function entry of the repository's packages; the happens-before race detector judges every schedule",
         "For 11 two-thread scenarios (17 more in thorough, incl. three threads and lock-only points with 3 pre-emptions) over one shared Config/TLS pool/JWKS provider/store factory - statically configured and discovered endpoints, client-secret rotation, CA rotation, JWKS fetcher first use, Redis - no schedule within the bound produces a data race whose access site is repository code, a deadlock or a panic, except the listed known findings.",
         "2-3 threads within a pre-emption bound instead of many goroutines on 16 cores; Redis scenarios blinded by ioSync; service start-up is ordered before the first check."),
 "C17": ("enumx", "4 C17", "deviation-bounded enumeration of configuration documents (singles+pairs over 3 base shapes, triples thorough, fixture member deletions) through the real loader with an independent post-condition predicate",
         "Every generated document (55k quick / 117k thorough) is either rejected with an error or yields a Config satisfying the safety predicate (resolved filters, openid scope, non-root callback, distinct logout path, client id/secret, ID-token header, endpoints or discovery, <=1 OIDC filter per chain, scalar merge = override-else-default); no panic.",
         "Repeated fields are not compared in the merge check; syntactically broken JSON is left to the decoder."),
 "C18": ("seqx", "4 C18", "explicit-state BFS at server level (real loader, real store factory PreRun, real ExtAuthZFilter.Check, one simulated provider realm per filter over an in-memory network) plus a one-sided real-time replay",
         "For every layout (shared memory / one Redis / two Redis x same or distinct cookie names x differing time-outs) and every history of logins and cross-filter cookie presentations (as issued, renamed, both names): a chain answers OK only for sessions created through it and forwards its own realm's tokens, redirects and token requests use its own provider and credentials, Redis TTLs follow the filter's own time-outs - except the listed known findings (shared store keyed by session id; first/last filter's time-outs).",
         "Real clock at server level (no expiry/refresh in these histories); real-time part asserts only 'dead after 4 s for a 2 s limit' and 'alive for 3600 s'."),
 "C19": ("seqx", "4 C19", "explicit-state BFS over Secret events (incl. deletion timestamps in the future), Reconcile deliveries and requests served by a long-lived ExtAuthZFilter on the real SecretController (controller-runtime fake client) against a reference map; all triples of references at start-up; a volume pass of rotations",
         "For every explored history (depth 6 quick / 7 thorough over 4 Secret objects, 3 or all 28 filter-to-secret assignments) every filter's client secret equals the last non-empty value reconciled while not deleting for the Secret it references, literal filters and other namespaces' Secrets never change anything, the token endpoint sees the current value, and cross-namespace references are refused at start-up.",
         "Reconcile deliveries are explicit events; informer machinery not modelled."),
 "C20": ("enumx+seqx+schedx", "4 C20", "full product of TLS settings judged by real handshakes; BFS over CA rotation histories with a virtual ticker; exhaustive interleavings of concurrent loads and rotation",
         "108 settings combinations trust exactly the configured CA (or everything only with skip and no CA); in every rotation history (depth 5/7) every client trusts the content its watcher last saw after a tick, equal settings share one *tls.Config, tickers never outnumber watched settings; all interleavings of concurrent first loads / load vs rotation end with shared configs that follow the rotation.",
         "System roots only negatively; virtual ticker instead of randomised timing."),
 "C06": ("enumx", "4 C06", "exhaustive attacker search: every candidate of a finite menu (math/rand seeds of the request's time bracket, PCG seeds, depth-2 derivations of public values and neighbouring ids; the whole 2^31-1 math/rand seed space in thorough) against real login redirects obtained through ExtAuthZFilter.Check",
         "For every login redirect (12 quick / 48 thorough) no candidate of the attacker menu reproduces the session id (or state/nonce from time and neighbours only); identifiers have the documented length/alphabet and never repeat.",
         "A finite menu decides predictability by the listed attacks only; the static 'every code path' clause is not claimed."),
 "C07": ("enumx", "4 C07", "bounded-exhaustive enumeration of rule sets x targets against a reference evaluator on the real ExtAuthZFilter.Check",
         "All rule sets of the pattern grammar (<=1/<=1 patterns per rule + pairs quick; <=2/<=2 thorough) x 84 targets: verdict equals the documented function of the path and is invariant under any ?query/#fragment tail.",
         "Alphabet of 37 patterns / 84 targets; 'randomly beyond' not claimed."),
}
NOT_APPLICABLE = []
def main():
    props = [json.loads(l)["id"] for l in open(os.path.join(V, "properties.jsonl"))]
    na = list(NOT_APPLICABLE)
    for pid in props:
        if pid not in CHECKS and pid not in [x["property_id"] for x in na]:
            na.append({"property_id": pid, "reason": "check not built yet in this framework (work in progress; planned per DESIGN.md §4)"})
    checks = []
    for pid in sorted(CHECKS):
        eng, ref, tech, text, note = CHECKS[pid]
        checks.append({
            "property_id": pid,
            "quick_cmd": f"./check {pid} --tier quick",
            "thorough_cmd": f"./check {pid} --tier thorough",
            "evidence_file": f"/verif/evidence/{pid}.json",
            "replay_cmd_template": f"./check {pid} --replay {{path}}",
            "engine": eng,
            "level_claimed": {"category": "model_checking", "text": text, "design_ref": "DESIGN.md §" + ref},
            "level_note": note,
            "technique": tech,
        })
    m = {
        "version": 1,
        "setup_cmd": "./setup.sh",
        "hooks": {
            "guard": "verif",
            "enable": "go build -tags verif -overlay <generated overlay.json>: hook files (//go:build verif) and the harness are overlaid into the repo module by tools/ovgen; no file of /repo is modified, so with the tag/overlay off nothing of ours is compiled",
            "baseline_off_cmd": "cd /repo && GOFLAGS=-mod=mod GOPROXY=off go test -json -vet=off -count=1 -timeout 25m ./...",
            "source_commits": [],
            "add_only": True,
        },
        "engines": [
            {"name": "seqx", "path": "harness/seqx", "serves_properties": [p for p in sorted(CHECKS) if "seqx" in CHECKS[p][0]],
             "kind_free_text": "explicit-state breadth-first search over event histories of the real code, canonical-state de-duplication, successor = replay + 1 event"},
            {"name": "schedx", "path": "harness/schedx + harness/vsched + harness/vsync", "serves_properties": [p for p in sorted(CHECKS) if "schedx" in CHECKS[p][0]],
             "kind_free_text": "stateless exploration of all thread schedules up to a pre-emption bound under a cooperative scheduler (plain and race-oracle back-ends)"},
            {"name": "enumx", "path": "harness/props", "serves_properties": [p for p in sorted(CHECKS) if "enumx" in CHECKS[p][0]],
             "kind_free_text": "bounded-exhaustive enumeration of inputs/configurations against an independently written reference"},
        ],
        "checks": checks,
        "not_applicable": na,
        "notes": "All exploration runs on the implementation itself (overlay build of /repo's working tree); see DESIGN.md.",
    }
    json.dump(m, open(os.path.join(V, "MANIFEST.json"), "w"), indent=1)
    print("wrote MANIFEST.json with", len(checks), "checks")
if __name__ == "__main__":
    main()

#!/bin/bash
# tools/mut.sh <patch.diff> <ID> [<ID>...]: apply a deliberate property-breaking change to /repo, run checks, revert.
set -u
P="$(realpath "$1")"; shift
cd /repo || exit 2
if [ -n "$(git status --porcelain)" ]; then echo "/repo not clean" >&2; exit 2; fi
git apply "$P" || { echo "patch does not apply" >&2; exit 2; }
trap 'git -C /repo checkout -- . ; git -C /repo clean -fdq' EXIT
for id in "$@"; do
  out=$(/verif/check "$id" ${TIER:+--tier $TIER} 2>&1); rc=$?
  echo "== $id on $(basename "$P"): exit=$rc"
  echo "$out" | grep -E "VIOLATION|KNOWN-FINDING|HARNESS-ERROR|signature:|tier=" | grep -v "^KNOWN-FINDING" | head -${LINES_MAX:-8}
done

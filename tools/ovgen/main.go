// ovgen builds the go build overlay used by every check.
//
//	ovgen -repo /repo -verif /verif -out <scratch>
//
// It writes <scratch>/overlay.json mapping
//   - every file under <verif>/harness/** to <repo>/zzverif/** (virtual packages inside the repo module),
//   - every file under <verif>/hooks/<pkgdir>/<f>.go to <repo>/<pkgdir>/zz_verif_<f>.go (//go:build verif),
//   - a rewritten copy (derived from the CURRENT working tree) of every non-test, non-generated Go file of the
//     repository's own packages that imports "sync", contains a go statement or uses time.NewTicker & co:
//     "sync" -> zzverif/vsync, `go f(x)` -> vsched.Go(...), time.NewTicker/Ticker/Sleep/After/Now/Since/Until -> vtime.
//
// Standard library only.
package main

import (
	"bytes"
	"encoding/json"
	"flag"
	"fmt"
	"go/ast"
	"go/parser"
	"go/printer"
	"go/token"
	"os"
	"path/filepath"
	"sort"
	"strconv"
	"strings"
)

const mod = "github.com/istio-ecosystem/authservice"

func must(err error) {
	if err != nil {
		fmt.Fprintln(os.Stderr, "ovgen:", err)
		os.Exit(2)
	}
}

func main() {
	repo := flag.String("repo", "/repo", "")
	verif := flag.String("verif", "/verif", "")
	out := flag.String("out", "", "")
	extra := flag.String("extra", "", "comma-separated extra source files (dependency modules) to rewrite like repository files")
	funcPoints := flag.Bool("funcpoints", false, "insert a scheduling point at the entry of every function of the repository's own packages")
	deps := flag.String("deps", "", "comma-separated importpath=dir: dependency packages whose only job is to make goroutines wait for each other; a rewritten copy becomes a virtual package of the repository module and the repository's imports are redirected to it")
	racePool := flag.String("racepool", "", "GOROOT: overlay sync/pool.go without its race annotations (race-oracle builds)")
	flag.Parse()
	if *out == "" {
		must(fmt.Errorf("-out required"))
	}
	must(os.MkdirAll(*out, 0o755))
	replace := map[string]string{}

	// harness -> virtual packages
	hroot := filepath.Join(*verif, "harness")
	must(filepath.Walk(hroot, func(p string, info os.FileInfo, err error) error {
		if err != nil {
			return err
		}
		if info.IsDir() || !strings.HasSuffix(p, ".go") {
			return nil
		}
		rel, _ := filepath.Rel(hroot, p)
		replace[filepath.Join(*repo, "zzverif", rel)] = p
		return nil
	}))

	// hooks -> white-box files inside repo packages
	kroot := filepath.Join(*verif, "hooks")
	if _, err := os.Stat(kroot); err == nil {
		must(filepath.Walk(kroot, func(p string, info os.FileInfo, err error) error {
			if err != nil {
				return err
			}
			if info.IsDir() || !strings.HasSuffix(p, ".go") {
				return nil
			}
			rel, _ := filepath.Rel(kroot, p)
			dir, base := filepath.Split(rel)
			replace[filepath.Join(*repo, dir, "zz_verif_"+base)] = p
			return nil
		}))
	}

	// rewritten copies of repo files
	var rewritten []string
	for _, kv := range strings.Split(*deps, ",") {
		if i := strings.Index(kv, "="); i > 0 {
			depDirs[kv[:i]] = kv[i+1:]
		}
	}
	for _, top := range []string{"internal", "cmd"} {
		root := filepath.Join(*repo, top)
		must(filepath.Walk(root, func(p string, info os.FileInfo, err error) error {
			if err != nil {
				return err
			}
			if info.IsDir() {
				if info.Name() == "testdata" {
					return filepath.SkipDir
				}
				return nil
			}
			if !strings.HasSuffix(p, ".go") || strings.HasSuffix(p, "_test.go") || strings.HasSuffix(p, ".pb.go") ||
				strings.HasSuffix(p, ".pb.validate.go") {
				return nil
			}
			src, err := os.ReadFile(p)
			if err != nil {
				return err
			}
			fpName = ""
			if *funcPoints {
				rel, _ := filepath.Rel(*repo, p)
				fpName = filepath.Dir(rel)
			}
			newSrc, changed, err := rewrite(p, src)
			if err != nil {
				return fmt.Errorf("%s: %w", p, err)
			}
			if !changed {
				return nil
			}
			rel, _ := filepath.Rel(*repo, p)
			dst := filepath.Join(*out, "rw", rel)
			if err := os.MkdirAll(filepath.Dir(dst), 0o755); err != nil {
				return err
			}
			if err := os.WriteFile(dst, newSrc, 0o644); err != nil {
				return err
			}
			replace[p] = dst
			rewritten = append(rewritten, rel)
			return nil
		}))
	}
	for _, p := range strings.Split(*extra, ",") {
		if p == "" {
			continue
		}
		src, err := os.ReadFile(p)
		if err != nil {
			continue
		}
		newSrc, changed, err := rewrite(p, src)
		must(err)
		if !changed {
			continue
		}
		dst := filepath.Join(*out, "rw", "dep", strings.ReplaceAll(strings.TrimPrefix(p, "/"), "/", "_"))
		must(os.MkdirAll(filepath.Dir(dst), 0o755))
		must(os.WriteFile(dst, newSrc, 0o644))
		replace[p] = dst
		rewritten = append(rewritten, p)
	}
	for ip, dir := range depDirs {
		if !depUsed[ip] {
			continue
		}
		ents, err := os.ReadDir(dir)
		must(err)
		for _, e := range ents {
			n := e.Name()
			if e.IsDir() || !strings.HasSuffix(n, ".go") || strings.HasSuffix(n, "_test.go") {
				continue
			}
			p := filepath.Join(dir, n)
			src, err := os.ReadFile(p)
			must(err)
			virt := filepath.Join(*repo, "zzverif", "dep", filepath.Base(ip), n)
			fpName = ""
			newSrc, changed, err := rewrite(p, src)
			must(err)
			if !changed {
				replace[virt] = p
				continue
			}
			dst := filepath.Join(*out, "rw", "depv", filepath.Base(ip), n)
			must(os.MkdirAll(filepath.Dir(dst), 0o755))
			must(os.WriteFile(dst, newSrc, 0o644))
			replace[virt] = dst
			rewritten = append(rewritten, ip+"/"+n)
		}
	}
	sort.Strings(rewritten)

	// race-oracle builds: sync.Pool hands objects from one thread to the next and annotates that as a
	// happens-before edge; under a serialising scheduler every fmt/bufio/json call would thereby order the
	// threads and blind the race detector. Strip the two annotations (objects from pools are never accessed by
	// repository code directly, and reports whose access sites are outside the repository are ignored).
	if *racePool != "" {
		pp := filepath.Join(*racePool, "src", "sync", "pool.go")
		src, err := os.ReadFile(pp)
		must(err)
		t := string(src)
		n1 := strings.Count(t, "race.ReleaseMerge(poolRaceAddr(x))")
		n2 := strings.Count(t, "race.Acquire(poolRaceAddr(x))")
		if n1 != 1 || n2 != 1 {
			must(fmt.Errorf("sync/pool.go: unexpected shape (%d, %d)", n1, n2))
		}
		t = strings.Replace(t, "race.ReleaseMerge(poolRaceAddr(x))", "_ = poolRaceAddr(x)", 1)
		t = strings.Replace(t, "race.Acquire(poolRaceAddr(x))", "_ = poolRaceAddr(x)", 1)
		dst := filepath.Join(*out, "rw", "std", "sync", "pool.go")
		must(os.MkdirAll(filepath.Dir(dst), 0o755))
		must(os.WriteFile(dst, []byte(t), 0o644))
		replace[pp] = dst
	}

	b, _ := json.MarshalIndent(map[string]any{"Replace": replace}, "", " ")
	must(os.WriteFile(filepath.Join(*out, "overlay.json"), b, 0o644))
	must(os.WriteFile(filepath.Join(*out, "rewritten.txt"), []byte(strings.Join(rewritten, "\n")+"\n"), 0o644))
}

type rw struct {
	fset       *token.FileSet
	file       *ast.File
	timeName   string // local name of "time" import, "" if none
	needVsched bool
	needVtime  bool
	changed    bool
	n          int
}

// depDirs: import path -> source directory of dependency packages to virtualise; depUsed: those the repository imports
var depDirs = map[string]string{}
var depUsed = map[string]bool{}

var builtinFuncs = map[string]bool{"panic": true, "close": true, "print": true, "println": true, "delete": true, "clear": true}

// fpName: when non-empty, function-entry scheduling points are inserted (value = package directory)
var fpName string

var vtimeSyms = map[string]bool{"NewTicker": true, "Ticker": true, "Sleep": true, "After": true, "Tick": true, "Now": true, "Since": true, "Until": true}

func rewrite(path string, src []byte) ([]byte, bool, error) {
	fset := token.NewFileSet()
	f, err := parser.ParseFile(fset, path, src, parser.ParseComments)
	if err != nil {
		return nil, false, err
	}
	r := &rw{fset: fset, file: f}
	for _, imp := range f.Imports {
		p, _ := strconv.Unquote(imp.Path.Value)
		switch p {
		case "sync":
			name := "sync"
			if imp.Name != nil {
				name = imp.Name.Name
			}
			imp.Name = ast.NewIdent(name)
			imp.Path.Value = strconv.Quote(mod + "/zzverif/vsync")
			r.changed = true
		default:
			if _, ok := depDirs[p]; ok {
				depUsed[p] = true
				imp.Path.Value = strconv.Quote(mod + "/zzverif/dep/" + filepath.Base(p))
				r.changed = true
			}
		case "time":
			r.timeName = "time"
			if imp.Name != nil {
				r.timeName = imp.Name.Name
			}
		}
	}
	// selector rewrites for time
	if r.timeName != "" && r.timeName != "_" && r.timeName != "." {
		ast.Inspect(f, func(n ast.Node) bool {
			sel, ok := n.(*ast.SelectorExpr)
			if !ok {
				return true
			}
			id, ok := sel.X.(*ast.Ident)
			if ok && id.Name == r.timeName && id.Obj == nil && vtimeSyms[sel.Sel.Name] {
				id.Name = "zzvtime"
				r.needVtime = true
				r.changed = true
			}
			return true
		})
	}
	// go statements
	r.walkBlocks(f)
	// function-entry scheduling points
	if fpName != "" {
		for _, d := range f.Decls {
			fd, ok := d.(*ast.FuncDecl)
			if !ok || fd.Body == nil || fd.Name.Name == "init" {
				continue
			}
			name := fpName + "." + fd.Name.Name
			if fd.Recv != nil && len(fd.Recv.List) > 0 {
				name = fpName + ".(" + exprString(fd.Recv.List[0].Type) + ")." + fd.Name.Name
			}
			call := &ast.ExprStmt{X: &ast.CallExpr{Fun: &ast.SelectorExpr{X: ast.NewIdent("zzvsched"), Sel: ast.NewIdent("FuncPoint")},
				Args: []ast.Expr{&ast.BasicLit{Kind: token.STRING, Value: strconv.Quote(name)}}}}
			fd.Body.List = append([]ast.Stmt{call}, fd.Body.List...)
			r.needVsched = true
			r.changed = true
		}
	}
	if !r.changed {
		return nil, false, nil
	}
	if r.needVsched {
		addImport(f, "zzvsched", mod+"/zzverif/vsched")
	}
	if r.needVtime {
		addImport(f, "zzvtime", mod+"/zzverif/vtime")
	}
	var buf bytes.Buffer
	if err := (&printer.Config{Mode: printer.UseSpaces | printer.TabIndent, Tabwidth: 8}).Fprint(&buf, fset, f); err != nil {
		return nil, false, err
	}
	out := buf.Bytes()
	// the time import may have become unused
	if r.needVtime && !usesIdent(f, r.timeName) {
		out = append(out, []byte("\nvar _ = "+r.timeName+".Now\n")...)
	}
	return out, true, nil
}

func exprString(e ast.Expr) string {
	switch t := e.(type) {
	case *ast.StarExpr:
		return "*" + exprString(t.X)
	case *ast.Ident:
		return t.Name
	case *ast.IndexExpr:
		return exprString(t.X)
	}
	return "?"
}

func usesIdent(f *ast.File, name string) bool {
	used := false
	ast.Inspect(f, func(n ast.Node) bool {
		if sel, ok := n.(*ast.SelectorExpr); ok {
			if id, ok := sel.X.(*ast.Ident); ok && id.Name == name && id.Obj == nil {
				used = true
			}
		}
		return !used
	})
	return used
}

func addImport(f *ast.File, name, path string) {
	spec := &ast.ImportSpec{Name: ast.NewIdent(name), Path: &ast.BasicLit{Kind: token.STRING, Value: strconv.Quote(path)}}
	for _, d := range f.Decls {
		if gd, ok := d.(*ast.GenDecl); ok && gd.Tok == token.IMPORT {
			gd.Specs = append(gd.Specs, spec)
			if !gd.Lparen.IsValid() {
				gd.Lparen = gd.Pos()
				gd.Rparen = gd.End()
			}
			f.Imports = append(f.Imports, spec)
			return
		}
	}
	gd := &ast.GenDecl{Tok: token.IMPORT, Specs: []ast.Spec{spec}}
	f.Decls = append([]ast.Decl{gd}, f.Decls...)
	f.Imports = append(f.Imports, spec)
}

// walkBlocks replaces every GoStmt in every statement list.
func (r *rw) walkBlocks(root ast.Node) {
	ast.Inspect(root, func(n ast.Node) bool {
		switch b := n.(type) {
		case *ast.BlockStmt:
			b.List = r.fixList(b.List)
		case *ast.CaseClause:
			b.Body = r.fixList(b.Body)
		case *ast.CommClause:
			b.Body = r.fixList(b.Body)
		case *ast.LabeledStmt:
			if g, ok := b.Stmt.(*ast.GoStmt); ok {
				b.Stmt = r.fixGo(g)
			}
		case *ast.IfStmt:
			// else branch that is directly a statement cannot be a GoStmt (must be block/if)
		}
		return true
	})
}

func (r *rw) fixList(list []ast.Stmt) []ast.Stmt {
	for i, s := range list {
		if g, ok := s.(*ast.GoStmt); ok {
			list[i] = r.fixGo(g)
		}
	}
	return list
}

func (r *rw) fixGo(g *ast.GoStmt) ast.Stmt {
	r.changed = true
	r.needVsched = true
	goFn := &ast.SelectorExpr{X: ast.NewIdent("zzvsched"), Sel: ast.NewIdent("Go")}
	call := g.Call
	if fl, ok := call.Fun.(*ast.FuncLit); ok && len(call.Args) == 0 {
		return &ast.ExprStmt{X: &ast.CallExpr{Fun: goFn, Args: []ast.Expr{fl}}}
	}
	// { fn := <fun>; a0 := <arg0>; ...; zzvsched.Go(func(){ fn(a0, ...) }) }
	r.n++
	var stmts []ast.Stmt
	fnName := fmt.Sprintf("zzfn%d", r.n)
	if id, ok := call.Fun.(*ast.Ident); ok && id.Obj == nil && builtinFuncs[id.Name] {
		fnName = id.Name // a built-in cannot be bound to a variable
	} else {
		stmts = append(stmts, &ast.AssignStmt{Lhs: []ast.Expr{ast.NewIdent(fnName)}, Tok: token.DEFINE, Rhs: []ast.Expr{call.Fun}})
	}
	var args []ast.Expr
	for i, a := range call.Args {
		an := fmt.Sprintf("zzarg%d_%d", r.n, i)
		stmts = append(stmts, &ast.AssignStmt{Lhs: []ast.Expr{ast.NewIdent(an)}, Tok: token.DEFINE, Rhs: []ast.Expr{a}})
		args = append(args, ast.NewIdent(an))
	}
	inner := &ast.CallExpr{Fun: ast.NewIdent(fnName), Args: args, Ellipsis: call.Ellipsis}
	lit := &ast.FuncLit{Type: &ast.FuncType{Params: &ast.FieldList{}}, Body: &ast.BlockStmt{List: []ast.Stmt{&ast.ExprStmt{X: inner}}}}
	stmts = append(stmts, &ast.ExprStmt{X: &ast.CallExpr{Fun: goFn, Args: []ast.Expr{lit}}})
	return &ast.BlockStmt{List: stmts}
}

#!/bin/bash
# tools/regress.sh: every kept seeded change and every own mutant against its property's quick check (exit 1 expected),
# then the combined benign refactorings against all checks (exit 0 expected). Writes /verif/seeded_regression.txt.
cd /verif
OUT=/verif/seeded_regression.txt
: > $OUT
for d in seeded seeded2 seeded3 seeded4 seeded5 seeded6 seeded7 seeded8 seeded9; do
  for id in $(ls $d | grep '^C[0-9]'); do
    [ -f $d/$id/patch.diff ] || continue
    rc=$(LINES_MAX=3 timeout 1500 tools/mut.sh $d/$id/patch.diff $id 2>&1 | grep -o 'exit=[0-9]*' | head -1)
    echo "$d/$id $id $rc" | tee -a $OUT
  done
done
if [ -f mutants/benign-refactorings-combined.diff ]; then
  for id in C01 C02 C03 C04 C05 C06 C07 C08 C09 C10 C11 C12 C13 C14 C15 C16 C17 C18 C19 C20; do
    rc=$(LINES_MAX=3 timeout 1500 tools/mut.sh mutants/benign-refactorings-combined.diff $id 2>&1 | grep -o 'exit=[0-9]*' | head -1)
    echo "benign $id $rc" | tee -a $OUT
  done
fi

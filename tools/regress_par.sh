#!/bin/bash
# tools/regress_par.sh [N]: like tools/regress.sh, but N (default 4) jobs in parallel, each on its own scratch worktree
# of /repo (VERIF_REPO=<worktree> ./check <ID>), removed afterwards. Writes /verif/seeded_regression.txt (sorted),
# or $REGRESS_OUT when set (partial runs: ONLY="<ids>").
N=${1:-4}
cd /verif
OUT=${REGRESS_OUT:-/verif/seeded_regression.txt}
TMP=$(mktemp -d /tmp/regress-XXXXXX)
JOBS=$TMP/jobs
for d in seeded seeded2 seeded3 seeded4 seeded5 seeded6 seeded7 seeded8 seeded9; do
  for id in $(ls $d | grep '^C[0-9]'); do
    [ -f $d/$id/patch.diff ] || continue
    # ONLY="C01 C14": restrict the seeds to these properties (the newest round is always included)
    if [ -n "${ONLY:-}" ] && [ $d != seeded9 ] && ! echo " $ONLY " | grep -q " $id "; then continue; fi
    echo "$d/$id $id /verif/$d/$id/patch.diff" >> $JOBS
  done
done
if [ -f mutants/benign-refactorings-combined.diff ]; then
  for id in C01 C02 C03 C04 C05 C06 C07 C08 C09 C10 C11 C12 C13 C14 C15 C16 C17 C18 C19 C20; do
    echo "benign $id /verif/mutants/benign-refactorings-combined.diff" >> $JOBS
  done
fi
worker() {
  k=$1; wt=$TMP/wt$k
  git -C /repo worktree add --detach -q $wt HEAD || exit 2
  while true; do
    line=$(flock $TMP/lock sh -c "head -1 $JOBS; sed -i 1d $JOBS")
    [ -z "$line" ] && break
    set -- $line
    if git -C $wt apply "$3" 2>/dev/null; then
      VERIF_REPO=$wt timeout 1500 /verif/check $2 > $TMP/out.$k 2>&1; rc=$?
    else
      rc=apply-failed
    fi
    git -C $wt checkout -q -- . ; git -C $wt clean -fdq
    echo "$1 $2 exit=$rc" >> $TMP/results
  done
  git -C /repo worktree remove --force $wt
}
for k in $(seq 1 $N); do worker $k & done
wait
git -C /repo worktree prune
sort -V $TMP/results > $OUT
rm -rf $TMP
grep -c . $OUT

#!/bin/bash
# tools/seedround.sh <seed_root> <out_dir_name> [ids...]: confirm every delivered seed and run its property's quick check on it.
ROOT="$1"; OUT="$2"; shift 2
IDS="$@"; [ -z "$IDS" ] && IDS=$(ls "$ROOT" | grep '^C[0-9]')
cd /verif
for id in $IDS; do
  [ -f "$ROOT/$id/SEED/patch.diff" ] || { echo "$id: not delivered"; continue; }
  [ -f "/verif/$OUT/$id/result.txt" ] && { echo "$id: $(cat /verif/$OUT/$id/result.txt)"; continue; }
  flags=""; [ "$id" = C16 ] && flags="-race"
  c=$(DEMO_FLAGS=$flags SEED_ROOT=$ROOT SEED_OUT=$OUT tools/confirm_seed.sh $id 2>&1 | tail -1)
  if [ "$c" != CONFIRMED ]; then echo "$id: NOT CONFIRMED"; continue; fi
  out=$(timeout 1200 tools/mut.sh $OUT/$id/patch.diff $id 2>&1)
  rc=$(echo "$out" | grep -o "exit=[0-9]*" | head -1)
  sig=$(echo "$out" | grep "signature:" | grep -v KNOWN | head -2 | cut -c1-140 | tr '\n' ' ')
  echo "$rc $sig" > /verif/$OUT/$id/result.txt
  echo "$id: $rc $sig"
done

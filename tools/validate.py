#!/opt/veriftools/pyvenv/bin/python
import json, sys, glob, jsonschema
m = json.load(open('/verif/MANIFEST.json'))
jsonschema.validate(m, json.load(open('/root/.vp/MANIFEST.schema.json')))
es = json.load(open('/root/.vp/EVIDENCE.schema.json'))
bad = 0
for c in m['checks']:
    f = c['evidence_file']
    try:
        jsonschema.validate(json.load(open(f)), es)
    except Exception as e:
        bad += 1
        print('INVALID', f, str(e)[:200])
props = [json.loads(l)['id'] for l in open('/verif/properties.jsonl')]
claimed = {c['property_id'] for c in m['checks']}
na = {x['property_id'] for x in m.get('not_applicable', [])}
missing = [p for p in props if p not in claimed and p not in na]
print('claimed', len(claimed), 'not_applicable', len(na), 'unlisted', missing, 'invalid evidence', bad)
